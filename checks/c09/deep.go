package main

// Deep nesting: freeze makes everything reachable immutable at EVERY depth, and immutable(...) / export stay
// shallow at every depth. Containers nested D levels (D around and beyond 100, 255, 256) are built by a loop,
// frozen, walked down again, and the innermost container is written to.

import (
	"fmt"

	"github.com/d5/tengo/v2"
	"verif/engine/report"
	"verif/engine/tg"
	"verif/engine/val"
)

type deepCase struct {
	Shape string `json:"shape"` // array | map | mixed
	Depth int    `json:"depth"`
}

func deepSource(c deepCase) string {
	wrap, down := "a = [a]", "x = x[0]"
	switch c.Shape {
	case "map":
		wrap, down = "a = {k: a}", "x = x.k"
	case "mixed":
		wrap, down = "a = i % 2 == 0 ? [a] : {k: a}", "x = is_immutable_array(x) ? x[0] : x.k"
	}
	return fmt.Sprintf(`a := [7]
for i := 0; i < %d; i++ { %s }
f := freeze(a)
x := f
for i := 0; i < %d; i++ { %s }
kind := type_name(x)
a = undefined; f = undefined
x[0] = 9
`, c.Depth, wrap, c.Depth, down)
}

func runDeep(c deepCase) (fails []string, obs string) {
	o := tg.Run(deepSource(c), tg.Opts{})
	kind := "?"
	if k, ok := o.Globals["kind"]; ok && k != nil {
		kind = val.Snapshot(k)
	}
	if kind != `string:"immutable-array"` {
		fails = append(fails, fmt.Sprintf("depth %d (%s): the innermost container of the frozen value is %s, not an immutable array", c.Depth, c.Shape, kind))
	}
	if o.Class != "runtime-error" || !containsNotAssignable(o.ErrText) {
		fails = append(fails, fmt.Sprintf("depth %d (%s): writing to the innermost container of the frozen value gave %s %s, expected a 'not index-assignable' error", c.Depth, c.Shape, o.Class, tg.FirstLine(o.ErrText)))
	}
	return fails, o.Class
}

func containsNotAssignable(s string) bool {
	for i := 0; i+len("not index-assignable") <= len(s); i++ {
		if s[i:i+len("not index-assignable")] == "not index-assignable" {
			return true
		}
	}
	return false
}

func deepCases(thorough bool) []deepCase {
	depths := []int{0, 1, 2, 50, 99, 100, 101, 150, 255, 256, 257, 400}
	if thorough {
		depths = append(depths, 3, 10, 64, 128, 200, 300, 511, 512, 513, 800)
	}
	var out []deepCase
	for _, s := range []string{"array", "map", "mixed"} {
		for _, d := range depths {
			out = append(out, deepCase{s, d})
		}
	}
	return out
}

func runDeepPart(r *report.Run) int {
	_ = tengo.MaxStringLen
	cs := deepCases(r.Thorough())
	for _, c := range cs {
		fails, obs := runDeep(c)
		r.Outcome("deep-freeze/" + obs)
		for _, f := range fails {
			r.Violation("deep-freeze/shape="+c.Shape, f, c)
		}
	}
	r.Set("deep_freeze_cases", len(cs))
	return len(cs)
}
