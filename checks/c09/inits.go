package main

import (
	"fmt"

	"github.com/d5/tengo/v2"
	"github.com/d5/tengo/v2/stdlib"
)

// Literals. Src is the script spelling (Pre are statements evaluated before
// it); Mk builds the same value as a fresh MUTABLE Go structure (for the host
// and builtin-module roots). Host-built arrays deliberately carry spare
// capacity (cap = len+3): capacity decides whether append writes in place.
type litDef struct {
	Name string
	Pre  string
	Expr string
	Mk   func() tengo.Object
}

func gi(n int64) tengo.Object { return &tengo.Int{Value: n} }
func garr(xs ...tengo.Object) *tengo.Array {
	v := make([]tengo.Object, len(xs), len(xs)+3)
	copy(v, xs)
	return &tengo.Array{Value: v}
}
func gmap(kv ...interface{}) *tengo.Map {
	m := map[string]tengo.Object{}
	for i := 0; i+1 < len(kv); i += 2 {
		m[kv[i].(string)] = kv[i+1].(tengo.Object)
	}
	return &tengo.Map{Value: m}
}

var lits = []litDef{
	{"flat", "", "[1, 2, 3]", func() tengo.Object { return garr(gi(1), gi(2), gi(3)) }},
	{"nested", "", "[[1], [2]]", func() tengo.Object { return garr(garr(gi(1)), garr(gi(2))) }},
	// a mutable child that is NOT the last element (the last one needs no freezing)
	{"arr-then-scalar", "", "[[1, 2], 7]", func() tengo.Object { return garr(garr(gi(1), gi(2)), gi(7)) }},
	{"map", "", "{a: 1, b: [2]}", func() tengo.Object { return gmap("a", gi(1), "b", garr(gi(2))) }},
	{"shared", "x := [1]; ", "[x, x]", func() tengo.Object { x := garr(gi(1)); return garr(x, x) }},
	{"arr-map-arr", "", "[{k: [1]}]", func() tengo.Object { return garr(gmap("k", garr(gi(1)))) }},
	{"err-arr", "", "[error([1])]", func() tengo.Object { return garr(&tengo.Error{Value: garr(gi(1))}) }},
	// a SHALLOW-immutable container with a mutable child, reachable twice
	{"shared-imm-arr", "x := immutable([[1]]); ", "[x, x]", func() tengo.Object {
		x := &tengo.ImmutableArray{Value: garr(garr(gi(1))).Value}
		return garr(x, x)
	}},
	{"shared-imm-map", "x := immutable({k: [1]}); ", "{a: x, b: x}", func() tengo.Object {
		x := &tengo.ImmutableMap{Value: gmap("k", garr(gi(1))).Value}
		return gmap("a", x, "b", x)
	}},
}

func litByName(n string) *litDef {
	for i := range lits {
		if lits[i].Name == n {
			return &lits[i]
		}
	}
	return nil
}

// Root kinds:
//
//	immutable  r := immutable(LIT)                         shallow
//	freeze     r := freeze(LIT)                            deep
//	export     module m: `export LIT`; r := import("m")    shallow
//	builtin    Go BuiltinModule{a: 1, b: [2], v: LIT}; r := import("bm")   shallow (the table)
//	           (+ lit "math": r := import("math") of the standard library)
//	host       &tengo.ImmutableArray / &tengo.ImmutableMap built in Go      shallow
//	aliased    v := LIT; r := immutable(v); w := v          the proviso: NOT protected
type initDef struct {
	Kind string
	Lit  string
}

func (d *initDef) name() string { return d.Kind + "/" + d.Lit }

func inits() []initDef {
	var out []initDef
	for _, k := range []string{"immutable", "freeze", "export", "builtin", "host"} {
		for _, l := range lits {
			out = append(out, initDef{k, l.Name})
		}
	}
	out = append(out, initDef{"builtin", "math"})
	out = append(out, initDef{"aliased", "flat"}, initDef{"aliased", "map"})
	return out
}

func (d *initDef) describe() string {
	src, _, _ := d.source()
	return src
}

// source returns the init script, its module map and the host inputs.
func (d *initDef) source() (string, *tengo.ModuleMap, map[string]tengo.Object) {
	l := litByName(d.Lit)
	switch d.Kind {
	case "immutable":
		return l.Pre + "r := immutable(" + l.Expr + ")", nil, nil
	case "freeze":
		return l.Pre + "r := freeze(" + l.Expr + ")", nil, nil
	case "export":
		mm := tengo.NewModuleMap()
		mm.AddSourceModule("m", []byte(l.Pre+"export "+l.Expr))
		return `r := import("m")   // module m: ` + l.Pre + "export " + l.Expr, mm, nil
	case "builtin":
		if d.Lit == "math" {
			return `r := import("math")`, stdlib.GetModuleMap("math"), nil
		}
		mm := tengo.NewModuleMap()
		mm.AddBuiltinModule("bm", map[string]tengo.Object{"a": gi(1), "b": garr(gi(2)), "v": l.Mk()})
		return `r := import("bm")   // Go BuiltinModule{a: 1, b: [2], v: ` + l.Expr + "}", mm, nil
	case "host":
		var root tengo.Object
		switch x := l.Mk().(type) {
		case *tengo.Array:
			root = &tengo.ImmutableArray{Value: x.Value}
		case *tengo.Map:
			root = &tengo.ImmutableMap{Value: x.Value}
		}
		return "r := h   // h = Go-built Immutable* of " + l.Expr, nil, map[string]tengo.Object{"h": root}
	case "aliased":
		return "v := " + l.Expr + "; r := immutable(v); w := v", nil, nil
	}
	return "", nil, nil
}

// build evaluates the init script and returns a fresh heap.
func (d *initDef) build() (*heap, string) {
	src, mm, in := d.source()
	if src == "" {
		return nil, "unknown init kind"
	}
	s := tengo.NewScript([]byte(src))
	for k, v := range in {
		_ = s.Add(k, v)
	}
	if mm != nil {
		s.SetImports(mm)
	}
	c, err := safeRun(s)
	if err != nil {
		return nil, fmt.Sprintf("init script %q failed: %v", src, err)
	}
	h := &heap{kind: d.Kind, lit: d.Lit}
	for i := range h.vars {
		h.vars[i] = tengo.UndefinedValue
	}
	h.vars[vR] = c.Get("r").Object()
	if d.Kind == "aliased" {
		h.vars[vW] = c.Get("w").Object()
	}
	h.initOracle()
	return h, ""
}

func safeRun(s *tengo.Script) (c *tengo.Compiled, err error) {
	defer func() {
		if p := recover(); p != nil {
			err = fmt.Errorf("panic: %v", p)
		}
	}()
	c, err = s.Compile()
	if err != nil {
		return nil, err
	}
	err = c.Run()
	return
}
