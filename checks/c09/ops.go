package main

import "strings"

// The operation alphabet. Every operation is one script over the globals
// r, t, u, w (all four are always passed as inputs, undefined when unset).
//
// Target = the variable the operation reads / writes through (X in the
// templates). Dest = the variable it assigns (-1: none). Class names the kind
// of route; signatures are built from the class of the operation that created
// the written-through variable and the class of the writing operation.
//
// An operation is applied to a state only if its target currently holds an
// array, a map (mutable or immutable) or an error value. On any other target
// (undefined, int) every template below either fails in its first instruction
// without touching the heap or copies a scalar into a variable; neither can
// reach the storage of a container, so those successors are dropped.
type opDef struct {
	Name   string
	Src    string
	Target int
	Dest   int
	Class  string // fine class (outcome histogram)
	Route  string // coarse class used in signatures
	Freeze bool   // evaluates the freeze laws
}

var opTable []opDef

const (
	vR = iota
	vT
	vU
	vW
)

var varNames = [4]string{"r", "t", "u", "w"}

type tmpl struct {
	src   string // X = target, D = destination
	class string
	dest  string // "", "X", "D", "t", "u"
}

// writers: applied to every variable
var writers = []tmpl{
	{"X[0] = 9", "indexset", ""},
	{"X[1] = 9", "indexset", ""},
	{"X.a = 9", "selset", ""},
	{"X.zz = 9", "selset-newkey", ""},
	{"X[0][0] = 9", "child-indexset", ""},
	{"X.b[0] = 9", "child-indexset", ""},
	{"X[0].k[0] = 9", "child-indexset", ""},
	// depth-3 writes, through the first and through the SECOND reference to a shared child
	{"X[0][0][0] = 9", "child-indexset", ""},
	{"X[1][0][0] = 9", "child-indexset", ""},
	{"X.a.k[0] = 9", "child-indexset", ""},
	{"X.b.k[0] = 9", "child-indexset", ""},
	{"X[0].value[0] = 9", "errvalue-indexset", ""},
	{"X.value[0] = 9", "errvalue-indexset", ""},
	// the same write compiled to OpSetSelLocal / OpSetSelFree instead of OpSetSelGlobal
	{"func(a) { a[0] = 9 }(X)", "local-indexset", ""},
	{"func(a) { return func() { a[0] = 9 } }(X)()", "free-indexset", ""},
	// spread into a variadic parameter: the callee's rest array must be fresh storage
	{"func(...a) { a[0] = 9 }(X...)", "spread-indexset", ""},
	{"splice(X, 0, 1)", "splice", ""},
	{"splice(X, 0, 0, 7)", "splice", ""},
	{`delete(X, "a")`, "delete", ""},
	{"for k, v in X { X[k] = 9 }", "iter-indexset", ""},
	// guarded by len(v) > 0 so that no write inside the loop can fail: map
	// iteration order is random, and a failure half way through would make the
	// successor depend on it (is_array is true for mutable arrays only)
	{"for k, v in X { if is_array(v) && len(v) > 0 { v[0] = 9 } }", "iter-child-indexset", ""},
	{"X += [7]", "pluseq", "X"},
	{"X += immutable([7])", "pluseq", "X"},
}

// derivers: D is chosen by destOf(X)
var derivers = []tmpl{
	{"D = X[0:2]", "slice", "D"},
	{"D = X[1:]", "slice", "D"},
	// empty slices keep a position inside (and the capacity of) the operand's storage
	{"D = X[1:1]", "slice", "D"},
	{"D = X[:0]", "slice", "D"},
	{"D = append(X, 7)", "append", "D"},
	{"D = X + X", "plus", "D"},
	{"D = X + [7]", "plus", "D"},
	{"D = X + immutable([7])", "plus", "D"},
	{"D = func(...a) { return a }(X...)", "spread", "D"},
	{"D = copy(X)", "copy", "D"},
	{"D = immutable(X)", "immutable", "D"},
	// freeze: also evaluates `freeze(X) == X` (and X == X, to know whether == is
	// reflexive on this value at all: functions and NaN are not)
	{"f__ := freeze(X); eq__ := f__ == X; refl__ := X == X; D = f__", "freeze", "D"},
}

// children and plain aliasing
var others = []tmpl{
	{"u = X[0]", "child", "u"},
	{"u = X.b", "child", "u"},
	{"t = X; t[0] = 9", "alias-indexset", "t"},
}

// destination of a derivation from X: r -> t, t -> w, u -> t, w -> t.
// (t = f(r) is the first derivation, w = f(t) keeps t alive next to what was
// derived from it, u holds children; f(u) and f(w) overwrite t.)
func destOf(x int) int {
	if x == vT {
		return vW
	}
	return vT
}

func buildOps() {
	opTable = nil
	add := func(t tmpl, x int) {
		d := -1
		switch t.dest {
		case "X":
			d = x
		case "D":
			d = destOf(x)
		case "t":
			d = vT
		case "u":
			d = vU
		}
		src := t.src
		if d >= 0 {
			src = strings.ReplaceAll(src, "D", varNames[d])
		}
		src = strings.ReplaceAll(src, "X", varNames[x])
		name := src
		if t.class == "freeze" {
			name = varNames[d] + " = freeze(" + varNames[x] + ")"
		}
		opTable = append(opTable, opDef{Name: name, Src: src, Target: x, Dest: d, Class: t.class, Route: routeOf(t.class), Freeze: t.class == "freeze"})
	}
	for x := 0; x < 4; x++ {
		for _, t := range writers {
			add(t, x)
		}
		for _, t := range derivers {
			add(t, x)
		}
		for _, t := range others {
			if t.class == "alias-indexset" && x == vT {
				continue // t = t; t[0] = 9 is t[0] = 9
			}
			add(t, x)
		}
	}
	if len(opTable) > 255 {
		panic("operation table exceeds uint8 path encoding")
	}
}

// routeOf folds the fine operation classes into the handful of route names
// that appear in signatures.
func routeOf(class string) string {
	switch class {
	case "local-indexset", "free-indexset", "iter-indexset", "alias-indexset", "spread-indexset":
		return "indexset"
	case "selset-newkey":
		return "selset"
	case "iter-child-indexset":
		return "child-indexset"
	}
	return class
}

func opByName(name string) *opDef {
	for i := range opTable {
		if opTable[i].Name == name {
			return &opTable[i]
		}
	}
	return nil
}
