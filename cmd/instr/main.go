// Command instr rewrites the concurrency-relevant constructs of package tengo
// (whatever /repo's files currently contain) into calls of verif/engine/vsched
// and writes a -overlay JSON, so that the real RunContext / VM code runs under
// the controlled scheduler. /repo is never written.
//
//	instr -repo /repo -out <scratch dir>
//
// Rewrites: sync.Mutex/RWMutex -> vsched types; sync/atomic calls -> vsched
// functions; go statements -> vsched.Go; make(chan ..) -> vsched.MakeChan;
// channel sends/receives -> preceded by vsched.BeforeSend/BeforeRecv; select
// (receive cases only) -> switch vsched.Select(...); accesses to fields of
// *Compiled inside its methods and to VM.globals elements -> preceded by
// vsched.TouchField / TouchSlice (happens-before race checker).
// Anything it cannot model is reported as "instrumentation incomplete: ..."
// (exit status 3): the checks then report exhaustive:false, never a violation.
package main

import (
	"bytes"
	"encoding/json"
	"flag"
	"fmt"
	"go/ast"
	"go/format"
	"go/parser"
	"go/token"
	"os"
	"path/filepath"
	"strings"
)

var incomplete []string

func main() {
	repo := flag.String("repo", "/repo", "repository root")
	out := flag.String("out", "", "output directory")
	flag.Parse()
	if *out == "" {
		fmt.Println("usage: instr -repo /repo -out dir")
		os.Exit(2)
	}
	dir := filepath.Join(*out, "instr")
	_ = os.MkdirAll(dir, 0o755)
	overlay := map[string]string{}
	entries, err := os.ReadDir(*repo)
	if err != nil {
		fmt.Println("INTERNAL:", err)
		os.Exit(2)
	}
	for _, e := range entries {
		name := e.Name()
		if e.IsDir() || !strings.HasSuffix(name, ".go") || strings.HasSuffix(name, "_test.go") || strings.HasPrefix(name, "verif_") {
			continue
		}
		path := filepath.Join(*repo, name)
		src, err := os.ReadFile(path)
		if err != nil {
			fmt.Println("INTERNAL:", err)
			os.Exit(2)
		}
		if !needs(src) {
			continue
		}
		res, changed, err := rewrite(name, src)
		if err != nil {
			fmt.Println("INTERNAL: rewriting", name, ":", err)
			os.Exit(2)
		}
		if !changed {
			continue
		}
		dst := filepath.Join(dir, name)
		if err := os.WriteFile(dst, res, 0o644); err != nil {
			fmt.Println("INTERNAL:", err)
			os.Exit(2)
		}
		overlay[path] = dst
	}
	b, _ := json.MarshalIndent(map[string]interface{}{"Replace": overlay}, "", " ")
	if err := os.WriteFile(filepath.Join(*out, "overlay.json"), b, 0o644); err != nil {
		fmt.Println("INTERNAL:", err)
		os.Exit(2)
	}
	for _, m := range incomplete {
		fmt.Println("instrumentation incomplete:", m)
	}
	if len(incomplete) > 0 {
		_ = os.WriteFile(filepath.Join(*out, "instr-incomplete.txt"), []byte(strings.Join(incomplete, "\n")+"\n"), 0o644)
		os.Exit(3)
	}
	fmt.Printf("instrumented %d files\n", len(overlay))
}

func needs(src []byte) bool {
	s := string(src)
	for _, k := range []string{"func (o *Array) IndexSet", "func builtinSplice(", "sync.Mutex", "sync.RWMutex", "sync.Pool", "\"sync/atomic\"", "go func", "\tgo ", "chan ", "select {", "*Compiled)", "v.globals["} {
		if strings.Contains(s, k) {
			return true
		}
	}
	return false
}

type rw struct {
	fset    *token.FileSet
	file    string
	changed bool
	recv    string // receiver name of the current *Compiled method ("" otherwise)
	inVM    bool
	tmp     int
	aliases map[string]bool // local variables that hold <recv>.globals (same backing array)
}

func sel(x, name string) *ast.SelectorExpr {
	return &ast.SelectorExpr{X: ast.NewIdent(x), Sel: ast.NewIdent(name)}
}

func call(fn ast.Expr, args ...ast.Expr) *ast.CallExpr { return &ast.CallExpr{Fun: fn, Args: args} }

func rewrite(name string, src []byte) ([]byte, bool, error) {
	fset := token.NewFileSet()
	// comments are dropped (inserted statements have no positions, so comments would float into them);
	// build constraints are re-emitted verbatim below
	f, err := parser.ParseFile(fset, name, src, 0)
	if err != nil {
		return nil, false, err
	}
	r := &rw{fset: fset, file: name}
	usesSyncOther := false
	// types and calls
	ast.Inspect(f, func(n ast.Node) bool {
		switch x := n.(type) {
		case *ast.SelectorExpr:
			if id, ok := x.X.(*ast.Ident); ok {
				if id.Name == "sync" {
					switch x.Sel.Name {
					case "Mutex", "RWMutex", "Pool":
						id.Name = "vsched"
						r.changed = true
					case "Cond", "WaitGroup":
						incomplete = append(incomplete, name+": sync."+x.Sel.Name+" is not modelled")
						usesSyncOther = true
					default:
						usesSyncOther = true // Once, Map, ...: not used by the code under test
					}
				}
				if id.Name == "atomic" {
					switch x.Sel.Name {
					case "LoadInt64", "StoreInt64", "AddInt64", "CompareAndSwapInt64":
						id.Name = "vsched"
						r.changed = true
					default:
						incomplete = append(incomplete, name+": atomic."+x.Sel.Name+" is not modelled")
					}
				}
			}
		}
		return true
	})
	// statements
	for _, d := range f.Decls {
		fd, ok := d.(*ast.FuncDecl)
		if !ok || fd.Body == nil {
			continue
		}
		r.recv, r.inVM = "", false
		r.aliases = map[string]bool{}
		if fd.Recv != nil && len(fd.Recv.List) == 1 && len(fd.Recv.List[0].Names) == 1 {
			if st, ok := fd.Recv.List[0].Type.(*ast.StarExpr); ok {
				if id, ok := st.X.(*ast.Ident); ok {
					if id.Name == "Compiled" {
						r.recv = fd.Recv.List[0].Names[0].Name
					}
					if id.Name == "VM" {
						r.inVM = true
						r.recv = fd.Recv.List[0].Names[0].Name
					}
				}
			}
		}
		r.block(fd.Body)
		r.containerTouch(fd)
	}
	if !r.changed {
		return nil, false, nil
	}
	// imports
	var specs []ast.Spec
	for _, d := range f.Decls {
		gd, ok := d.(*ast.GenDecl)
		if !ok || gd.Tok != token.IMPORT {
			continue
		}
		specs = gd.Specs[:0]
		for _, s := range gd.Specs {
			is := s.(*ast.ImportSpec)
			if is.Path.Value == `"sync/atomic"` {
				continue
			}
			if is.Path.Value == `"sync"` && !usesSyncOther {
				continue
			}
			specs = append(specs, s)
		}
		specs = append(specs, &ast.ImportSpec{Name: ast.NewIdent("vsched"), Path: &ast.BasicLit{Kind: token.STRING, Value: `"verif/engine/vsched"`}})
		gd.Specs = specs
		if !gd.Lparen.IsValid() {
			gd.Lparen = gd.Pos()
			gd.Rparen = gd.End()
		}
		break
	}
	var buf bytes.Buffer
	if err := format.Node(&buf, fset, f); err != nil {
		return nil, false, err
	}
	var hdr bytes.Buffer
	for _, line := range strings.Split(string(src), "\n") {
		if strings.HasPrefix(line, "package ") {
			break
		}
		if strings.HasPrefix(line, "//go:build") || strings.HasPrefix(line, "// +build") {
			hdr.WriteString(line + "\n")
		}
	}
	if hdr.Len() > 0 {
		hdr.WriteString("\n")
	}
	hdr.Write(buf.Bytes())
	return hdr.Bytes(), true, nil
}

func (r *rw) block(b *ast.BlockStmt) {
	if b == nil {
		return
	}
	b.List = r.stmts(b.List)
}

// chanOps collects send/receive channel expressions of a simple statement (not descending into function literals).
func recvChans(n ast.Node) (recvs []ast.Expr) {
	ast.Inspect(n, func(x ast.Node) bool {
		switch e := x.(type) {
		case *ast.FuncLit:
			return false
		case *ast.UnaryExpr:
			if e.Op == token.ARROW {
				recvs = append(recvs, e.X)
			}
		}
		return true
	})
	return
}

func (r *rw) touches(n ast.Node, isAssign bool, lhs []ast.Expr) (pre []ast.Stmt) {
	if r.recv == "" {
		return nil
	}
	seen := map[string]bool{}
	add := func(field string, write bool) {
		k := fmt.Sprint(field, write)
		if seen[k] {
			return
		}
		seen[k] = true
		w := "false"
		if write {
			w = "true"
		}
		if field == "globals[]" {
			pre = append(pre, &ast.ExprStmt{X: call(sel("vsched", "TouchSlice"), sel(r.recv, "globals"), ast.NewIdent(w))})
			return
		}
		pre = append(pre, &ast.ExprStmt{X: call(sel("vsched", "TouchField"), ast.NewIdent(r.recv),
			&ast.BasicLit{Kind: token.STRING, Value: `"` + field + `"`}, ast.NewIdent(w))})
	}
	isRecvField := func(e ast.Expr) (string, bool) {
		se, ok := e.(*ast.SelectorExpr)
		if !ok {
			return "", false
		}
		id, ok := se.X.(*ast.Ident)
		if !ok || id.Name != r.recv {
			return "", false
		}
		return se.Sel.Name, true
	}
	written := map[ast.Node]bool{}
	for _, l := range lhs {
		if f, ok := isRecvField(l); ok && !r.inVM {
			add(f, true)
			written[l] = true
		}
		if ix, ok := l.(*ast.IndexExpr); ok {
			if f, ok := isRecvField(ix.X); ok && f == "globals" {
				add("globals[]", true)
				written[ix] = true
				written[ix.X] = true
			}
		}
	}
	ast.Inspect(n, func(x ast.Node) bool {
		if _, ok := x.(*ast.FuncLit); ok {
			return false
		}
		if written[x] {
			return true
		}
		switch e := x.(type) {
		case *ast.IndexExpr:
			if f, ok := isRecvField(e.X); ok && f == "globals" {
				add("globals[]", false)
			}
		case *ast.SelectorExpr:
			if f, ok := isRecvField(e); ok && !r.inVM {
				switch f {
				case "lock":
				default:
					if !written[e] {
						add(f, false)
					}
				}
			}
		}
		return true
	})
	return
}

// containerTouch annotates the methods of the mutable container types (and the builtins that mutate
// containers in place) with accesses to the container's contents, so that the happens-before checker
// sees e.g. a Copy (read) racing with an IndexSet (write) on the same array.
func (r *rw) containerTouch(fd *ast.FuncDecl) {
	touch := func(obj string, write bool) ast.Stmt {
		w := "false"
		if write {
			w = "true"
		}
		return &ast.ExprStmt{X: call(sel("vsched", "TouchField"), ast.NewIdent(obj), &ast.BasicLit{Kind: token.STRING, Value: `"Value"`}, ast.NewIdent(w))}
	}
	if fd.Recv != nil && len(fd.Recv.List) == 1 && len(fd.Recv.List[0].Names) == 1 {
		st, ok := fd.Recv.List[0].Type.(*ast.StarExpr)
		if !ok {
			return
		}
		id, ok := st.X.(*ast.Ident)
		if !ok {
			return
		}
		switch id.Name {
		case "Array", "Map", "ImmutableArray", "ImmutableMap":
		default:
			return
		}
		recv := fd.Recv.List[0].Names[0].Name
		switch fd.Name.Name {
		case "IndexSet":
			fd.Body.List = append([]ast.Stmt{touch(recv, true)}, fd.Body.List...)
			r.changed = true
		case "Copy", "IndexGet", "Equals", "String", "Iterate", "BinaryOp", "IsFalsy":
			fd.Body.List = append([]ast.Stmt{touch(recv, false)}, fd.Body.List...)
			r.changed = true
		}
		return
	}
	// builtins that mutate their first argument in place
	switch fd.Name.Name {
	case "builtinSplice", "builtinDelete":
		var walk func(list []ast.Stmt) []ast.Stmt
		walk = func(list []ast.Stmt) []ast.Stmt {
			var out []ast.Stmt
			for _, st := range list {
				switch x := st.(type) {
				case *ast.AssignStmt:
					if x.Tok == token.ASSIGN && len(x.Lhs) == 1 {
						if se, ok := x.Lhs[0].(*ast.SelectorExpr); ok && se.Sel.Name == "Value" {
							if id, ok := se.X.(*ast.Ident); ok {
								out = append(out, touch(id.Name, true))
								r.changed = true
							}
						}
					}
				case *ast.ExprStmt:
					if c, ok := x.X.(*ast.CallExpr); ok {
						if f, ok := c.Fun.(*ast.Ident); ok && f.Name == "delete" && len(c.Args) == 2 {
							if se, ok := c.Args[0].(*ast.SelectorExpr); ok && se.Sel.Name == "Value" {
								if id, ok := se.X.(*ast.Ident); ok {
									out = append(out, touch(id.Name, true))
									r.changed = true
								}
							}
						}
					}
				case *ast.IfStmt:
					x.Body.List = walk(x.Body.List)
				case *ast.SwitchStmt:
					for _, c := range x.Body.List {
						cc := c.(*ast.CaseClause)
						cc.Body = walk(cc.Body)
					}
				case *ast.TypeSwitchStmt:
					for _, c := range x.Body.List {
						cc := c.(*ast.CaseClause)
						cc.Body = walk(cc.Body)
					}
				}
				out = append(out, st)
			}
			return out
		}
		fd.Body.List = walk(fd.Body.List)
	}
}

// aliasTouches annotates element accesses through local aliases of <recv>.globals.
func (r *rw) aliasTouches(n ast.Node, lhs []ast.Expr) (pre []ast.Stmt) {
	if len(r.aliases) == 0 {
		return nil
	}
	written := map[ast.Node]bool{}
	seen := map[string]bool{}
	add := func(name string, write bool) {
		k := fmt.Sprint(name, write)
		if seen[k] {
			return
		}
		seen[k] = true
		w := "false"
		if write {
			w = "true"
		}
		pre = append(pre, &ast.ExprStmt{X: call(sel("vsched", "TouchSlice"), ast.NewIdent(name), ast.NewIdent(w))})
		r.changed = true
	}
	for _, l := range lhs {
		if ix, ok := l.(*ast.IndexExpr); ok {
			if id, ok := ix.X.(*ast.Ident); ok && r.aliases[id.Name] {
				add(id.Name, true)
				written[ix] = true
			}
		}
	}
	ast.Inspect(n, func(x ast.Node) bool {
		if _, ok := x.(*ast.FuncLit); ok {
			return false
		}
		if ix, ok := x.(*ast.IndexExpr); ok && !written[ix] {
			if id, ok := ix.X.(*ast.Ident); ok && r.aliases[id.Name] {
				add(id.Name, false)
			}
		}
		return true
	})
	return
}

func (r *rw) stmts(list []ast.Stmt) []ast.Stmt {
	var out []ast.Stmt
	for _, s := range list {
		out = append(out, r.stmt(s)...)
	}
	return out
}

// header handles the expressions of a compound statement's header.
func (r *rw) header(nodes ...ast.Node) (pre []ast.Stmt) {
	for _, n := range nodes {
		if n == nil || isNilNode(n) {
			continue
		}
		for _, ch := range recvChans(n) {
			pre = append(pre, &ast.ExprStmt{X: call(sel("vsched", "BeforeRecv"), ch)})
			r.changed = true
		}
		if t := r.touches(n, false, nil); len(t) > 0 {
			pre = append(pre, t...)
			r.changed = true
		}
	}
	return
}

func isNilNode(n ast.Node) bool {
	switch x := n.(type) {
	case ast.Expr:
		return x == nil
	case ast.Stmt:
		return x == nil
	}
	return false
}

func (r *rw) funcLits(n ast.Node) {
	ast.Inspect(n, func(x ast.Node) bool {
		if fl, ok := x.(*ast.FuncLit); ok {
			saved := r.recv
			r.block(fl.Body)
			r.recv = saved
			return false
		}
		return true
	})
}

func (r *rw) stmt(s ast.Stmt) []ast.Stmt {
	switch x := s.(type) {
	case *ast.BlockStmt:
		r.block(x)
		return []ast.Stmt{x}
	case *ast.IfStmt:
		var pre []ast.Stmt
		if x.Init != nil {
			init := r.stmt(x.Init)
			if len(init) > 1 {
				pre = append(pre, init[:len(init)-1]...)
			}
		}
		pre = append(pre, r.header(x.Cond)...)
		r.funcLits(x.Cond)
		r.block(x.Body)
		if x.Else != nil {
			e := r.stmt(x.Else)
			if len(e) == 1 {
				x.Else = e[0]
			} else {
				x.Else = &ast.BlockStmt{List: e}
			}
		}
		return append(pre, x)
	case *ast.ForStmt:
		// touches in loop headers would have to be re-inserted in the body; tengo's loops over shared
		// fields are handled by touching before the loop (coarser, still sound for race detection)
		var hdr []ast.Node
		if x.Cond != nil {
			hdr = append(hdr, x.Cond)
		}
		pre := r.header(hdr...)
		if len(recvChans(x)) > 0 && x.Cond != nil && len(recvChans(x.Cond)) > 0 {
			incomplete = append(incomplete, r.file+": channel receive in a for condition")
		}
		r.block(x.Body)
		return append(pre, x)
	case *ast.RangeStmt:
		pre := r.header(x.X)
		if id, ok := x.X.(*ast.Ident); ok && r.aliases[id.Name] {
			pre = append(pre, &ast.ExprStmt{X: call(sel("vsched", "TouchSlice"), ast.NewIdent(id.Name), ast.NewIdent("false"))})
			r.changed = true
		}
		// ranging over <recv>.globals reads its elements
		if se, ok := x.X.(*ast.SelectorExpr); ok && r.recv != "" && se.Sel.Name == "globals" {
			if id, ok := se.X.(*ast.Ident); ok && id.Name == r.recv {
				pre = append(pre, &ast.ExprStmt{X: call(sel("vsched", "TouchSlice"), se, ast.NewIdent("false"))})
				r.changed = true
			}
		}
		r.block(x.Body)
		return append(pre, x)
	case *ast.SwitchStmt:
		var pre []ast.Stmt
		if x.Tag != nil {
			pre = r.header(x.Tag)
		}
		for _, c := range x.Body.List {
			cc := c.(*ast.CaseClause)
			cc.Body = r.stmts(cc.Body)
		}
		return append(pre, x)
	case *ast.TypeSwitchStmt:
		for _, c := range x.Body.List {
			cc := c.(*ast.CaseClause)
			cc.Body = r.stmts(cc.Body)
		}
		return []ast.Stmt{x}
	case *ast.SelectStmt:
		return r.selectStmt(x)
	case *ast.GoStmt:
		r.changed = true
		var fn ast.Expr
		if fl, ok := x.Call.Fun.(*ast.FuncLit); ok && len(x.Call.Args) == 0 {
			r.block(fl.Body)
			fn = fl
		} else {
			fn = &ast.FuncLit{Type: &ast.FuncType{Params: &ast.FieldList{}}, Body: &ast.BlockStmt{List: []ast.Stmt{&ast.ExprStmt{X: x.Call}}}}
		}
		return []ast.Stmt{&ast.ExprStmt{X: call(sel("vsched", "Go"), fn)}}
	case *ast.DeferStmt:
		r.funcLits(x.Call)
		return []ast.Stmt{x}
	case *ast.SendStmt:
		// ch <- f()  =>  tmp := f(); vsched.BeforeSend(ch); ch <- tmp
		// (the value is computed first; the send itself is the scheduling point)
		r.changed = true
		pre := r.header(x.Value)
		switch x.Value.(type) {
		case *ast.Ident, *ast.BasicLit:
		default:
			r.tmp++
			tmp := ast.NewIdent(fmt.Sprintf("vschedTmp%d", r.tmp))
			pre = append(pre, &ast.AssignStmt{Lhs: []ast.Expr{tmp}, Tok: token.DEFINE, Rhs: []ast.Expr{x.Value}})
			x.Value = tmp
		}
		pre = append(pre, &ast.ExprStmt{X: call(sel("vsched", "BeforeSend"), x.Chan)})
		return append(pre, x)
	case *ast.LabeledStmt:
		inner := r.stmt(x.Stmt)
		x.Stmt = inner[len(inner)-1]
		return append(inner[:len(inner)-1], x)
	case *ast.AssignStmt:
		var pre []ast.Stmt
		for _, ch := range recvChans(x) {
			pre = append(pre, &ast.ExprStmt{X: call(sel("vsched", "BeforeRecv"), ch)})
			r.changed = true
		}
		// make(chan T, n) -> vsched.MakeChan(make(chan T, n)).(chan T)
		for i, rhs := range x.Rhs {
			if c, ok := rhs.(*ast.CallExpr); ok {
				if id, ok := c.Fun.(*ast.Ident); ok && id.Name == "make" && len(c.Args) >= 1 {
					if ct, ok := c.Args[0].(*ast.ChanType); ok {
						x.Rhs[i] = &ast.TypeAssertExpr{X: call(sel("vsched", "MakeChan"), c), Type: ct}
						r.changed = true
					}
				}
			}
		}
		if t := r.touches(x, true, x.Lhs); len(t) > 0 {
			pre = append(pre, t...)
			r.changed = true
		}
		// g := c.globals makes g an alias of the shared backing array
		if r.recv != "" && len(x.Lhs) == len(x.Rhs) {
			for i, rhs := range x.Rhs {
				if se, ok := rhs.(*ast.SelectorExpr); ok && se.Sel.Name == "globals" {
					if id, ok := se.X.(*ast.Ident); ok && id.Name == r.recv {
						if l, ok := x.Lhs[i].(*ast.Ident); ok {
							r.aliases[l.Name] = true
						}
					}
				}
			}
		}
		pre = append(pre, r.aliasTouches(x, x.Lhs)...)
		r.funcLits(x)
		return append(pre, x)
	case *ast.ExprStmt, *ast.ReturnStmt, *ast.IncDecStmt, *ast.DeclStmt:
		var pre []ast.Stmt
		for _, ch := range recvChans(x) {
			pre = append(pre, &ast.ExprStmt{X: call(sel("vsched", "BeforeRecv"), ch)})
			r.changed = true
		}
		var lhs []ast.Expr
		if id, ok := x.(*ast.IncDecStmt); ok {
			lhs = []ast.Expr{id.X}
		}
		if t := r.touches(x, len(lhs) > 0, lhs); len(t) > 0 {
			pre = append(pre, t...)
			r.changed = true
		}
		r.funcLits(x)
		return append(pre, x)
	}
	return []ast.Stmt{s}
}

func (r *rw) selectStmt(x *ast.SelectStmt) []ast.Stmt {
	r.changed = true
	var chans []ast.Expr
	hasDefault := "false"
	sw := &ast.SwitchStmt{Body: &ast.BlockStmt{}}
	idx := 0
	var dflt *ast.CaseClause
	for _, c := range x.Body.List {
		cc := c.(*ast.CommClause)
		body := r.stmts(cc.Body)
		if cc.Comm == nil {
			hasDefault = "true"
			dflt = &ast.CaseClause{Body: body}
			continue
		}
		var ch ast.Expr
		switch cm := cc.Comm.(type) {
		case *ast.ExprStmt:
			if u, ok := cm.X.(*ast.UnaryExpr); ok && u.Op == token.ARROW {
				ch = u.X
			}
		case *ast.AssignStmt:
			if len(cm.Rhs) == 1 {
				if u, ok := cm.Rhs[0].(*ast.UnaryExpr); ok && u.Op == token.ARROW {
					ch = u.X
				}
			}
		}
		if ch == nil {
			incomplete = append(incomplete, r.file+": select case that is not a receive")
			return []ast.Stmt{x}
		}
		chans = append(chans, ch)
		cl := &ast.CaseClause{List: []ast.Expr{&ast.BasicLit{Kind: token.INT, Value: fmt.Sprint(idx)}}}
		cl.Body = append([]ast.Stmt{cc.Comm}, body...)
		sw.Body.List = append(sw.Body.List, cl)
		idx++
	}
	if dflt != nil {
		dflt.List = []ast.Expr{&ast.BasicLit{Kind: token.INT, Value: fmt.Sprint(idx)}}
		sw.Body.List = append(sw.Body.List, dflt)
	}
	args := append([]ast.Expr{ast.NewIdent(hasDefault)}, chans...)
	sw.Tag = call(sel("vsched", "Select"), args...)
	// outside an exploration the original select statement runs unchanged
	for _, c := range x.Body.List {
		cc := c.(*ast.CommClause)
		for _, cl := range sw.Body.List {
			k := cl.(*ast.CaseClause)
			if len(k.Body) > 0 && k.Body[0] == cc.Comm {
				cc.Body = k.Body[1:]
			}
		}
		if cc.Comm == nil && dflt != nil {
			cc.Body = dflt.Body
		}
	}
	return []ast.Stmt{&ast.IfStmt{
		Cond: call(sel("vsched", "Controlled")),
		Body: &ast.BlockStmt{List: []ast.Stmt{sw}},
		Else: &ast.BlockStmt{List: []ast.Stmt{x}},
	}}
}
