#!/usr/bin/env python3
"""Regenerates MANIFEST.json from the table below (single source of truth for check registration)."""
import json, subprocess

HOOK_COMMITS = []  # filled in below from /repo's git log (commits whose subject starts with "verif hook:")
try:
    out = subprocess.run(["git", "-C", "/repo", "log", "--format=%h %s"], capture_output=True, text=True).stdout
    HOOK_COMMITS = [l.split()[0] for l in out.splitlines() if " verif hook:" in " " + l]
except Exception:
    pass

CHECKS = {
 "C10": dict(
   text="Exhaustive small-scope enumeration: every unordered pair and every singleton of a 75-value alphabet covering all runtime types and numeric/string boundary values, in host-input and literal form, each evaluated by the real compiler+VM; the comparison laws, the documented truthiness and conversion tables and copy-equality/independence are evaluated on every element. Right level because the laws relate two code paths (a?b vs b?a, Copy vs Equals) and a finite alphabet of boundary values is where one-sided edits show.",
   note="Trusted: the alphabet (engine/val), the transcription of docs/runtime-types.md in checks/c10 (refConv/refFalsy), the harness snapshot function. Values outside the alphabet are not covered.",
   technique="bounded exhaustive enumeration of value pairs/singletons against algebraic laws and a reference table",
   design="4/C10"),
}

NOT_YET = {}

def main():
    checks = []
    for pid in sorted(CHECKS):
        c = CHECKS[pid]
        checks.append({
            "property_id": pid,
            "quick_cmd": f"./run {pid} quick",
            "thorough_cmd": f"./run {pid} thorough",
            "evidence_file": f"/verif/evidence/{pid}.json",
            "replay_cmd_template": "./run replay {path}",
            "engine": c.get("engine", "enum"),
            "level_claimed": {"category": "model_checking", "text": c["text"], "design_ref": "DESIGN.md section " + c["design"]},
            "level_note": c["note"],
            "technique": c["technique"],
        })
    na = []
    for i in range(1, 21):
        pid = f"C{i:02d}"
        if pid not in CHECKS:
            na.append({"property_id": pid, "reason": NOT_YET.get(pid, "check not built yet in this round (design in DESIGN.md section 4); not claimed until its check exists and passes on the unchanged tree")})
    m = {
        "version": 1,
        "setup_cmd": "./run setup",
        "hooks": {
            "guard": "verif",
            "enable": "go build -tags verif (checks are built by ./run with -tags verif from /repo's working tree via the go.mod replace directive)",
            "baseline_off_cmd": "cd /repo && GOFLAGS=-mod=mod GOPROXY=off GOSUMDB=off go test -json -vet=off -count=1 -timeout 25m ./...",
            "source_commits": HOOK_COMMITS,
            "add_only": True,
        },
        "engines": [
            {"name": "enum", "path": "engine/report, engine/val, engine/tg", "serves_properties": sorted(CHECKS), "kind_free_text": "bounded exhaustive enumeration driver: deterministic case lists, parallel execution on the real implementation, violation grouping by signature, known-finding matching, evidence/replay writers"},
        ],
        "checks": checks,
        "not_applicable": na,
        "notes": "All checks: ./run <id> quick|thorough; replay: ./run replay <file>. Known findings live in KNOWN_FINDINGS.txt.",
    }
    json.dump(m, open("MANIFEST.json", "w"), indent=1)
    print("wrote MANIFEST.json with", len(checks), "checks")

main()
