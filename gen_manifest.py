#!/usr/bin/env python3
"""Regenerates MANIFEST.json from the table below (single source of truth for check registration)."""
import json, subprocess

HOOK_COMMITS = []  # filled in below from /repo's git log (commits whose subject starts with "verif hook:")
try:
    out = subprocess.run(["git", "-C", "/repo", "log", "--format=%h %s"], capture_output=True, text=True).stdout
    HOOK_COMMITS = [l.split()[0] for l in out.splitlines() if " verif hook:" in " " + l]
except Exception:
    pass

CHECKS = {
 "C04": dict(
   text="Every token sequence up to length 3 over a 52-token alphabet (length 4 over 32/48 tokens, length 5 over 24 thorough), every byte string up to length 2 over all 256 bytes (3 thorough) and up to 4/5 over 17 hostile bytes (incl. CR), the complete 1-edit neighbourhood (delete / insert / replace by every alphabet token) of a 71-program corpus covering every production, and boundary-size programs (globals, locals, params, captured variables, literals, constants, selector chains, nesting depth 100..10000) are fed to parser.ParseFile, Compiler.Compile(+Bytecode+RemoveDuplicates) and Script.Compile under the product of module configurations (none, stdlib, source modules incl. the input as a module body, custom Importables) and pre-declared variables. Oracle: returns value or error, no panic, terminates (CPU-time watchdog in worker subprocesses, confirmed alone before reporting), every reported position inside the offending input with consistent line/column.",
   note="Trusted: the position conventions read off parser/source_file.go. Execution of compiled code is other properties' subject. Nesting beyond depth 10000 (unbounded recursion of the recursive-descent parser/compiler) is outside the bound.",
   technique="bounded exhaustive enumeration of token sequences, byte strings and 1-edit neighbourhoods x configurations with a totality oracle, in isolated worker processes",
   design="4/C04"),
 "C05": dict(
   text="Every case of a hostile family is executed in isolated worker subprocesses (address-space limit, line protocol with the in-flight index, death attribution by re-running the suspect alone in fresh workers, effective-time watchdogs): about 1800 hostile atoms (ill-typed operations, division by zero, negative sizes, mutation of every container kind while iterating it, self-containing arrays/maps/immutables/errors followed by each recursive operation, runaway recursion with 0-3 locals, operand-stack exhaustion, bad spread, non-callables, wrong argument counts for every builtin, nil-returning / error-returning / panicking host functions, contract-breaking host objects, deep acyclic nesting, huge widths, extreme times, overflowing counters) x placements (main, function, closure, module, loop, builtin argument, for-in header), plus all value-level operator/builtin cases of C01 as hostile inputs. Per case on the SAME compiled object: Compile, RunContext, Get, GetAll, IsDefined, Set, RunContext again, Clone, Clone().RunContext - each must return (no hang), no panic may reach the caller, the worker must survive, no goroutine may be left behind.",
   note="Trusted: the worker protocol and death attribution (a violation needs the crash in every isolated attempt). Unbounded single allocations (bytes(2^31-1), huge range) are outside the claim as the property says. Hang verdicts rest on generous effective-time limits (20 s in a batch + 60 s alone).",
   technique="bounded exhaustive enumeration of hostile programs x placements with a liveness/no-crash oracle, in isolated worker processes with crash bisection",
   design="4/C05"),
 "C06": dict(
   text="(a) for every terminating program of the stmt/func/builtin families (65k quick) the run is repeated for EVERY allocation budget N = 0..K and unlimited: there must be a threshold T with the allocation-limit error below it and the unlimited result from it on (monotone, right error identity), and T must equal the number of counter decrements observed through the VM probe in the unlimited run. (b) for six (MaxStringLen, MaxBytesLen) settings every string/bytes-producing operation of the core language (about 130: + on all type pairs, conversions, format verbs/width/precision/*, type_name, slices, literals, host inputs, compound assignment, values built inside functions) with operand lengths placing the result at L-1, L, L+1: no over-long String/Bytes reachable from the globals, limit error exactly when the true length exceeds the limit. (c) non-tail/mutual/closure/method recursion x params x locals x depths around both capacities: value when both capacities suffice, an error otherwise, ErrStackOverflow when frames run out first (slots per frame from engine/bcv), bounded heap growth at depth 1e5.",
   note="Trusted: the probe-based allocation count, the true result length taken from the unlimited run, engine/bcv slot computation. stdlib modules are outside 'core language'.",
   technique="bounded exhaustive enumeration of programs x limit configurations (all budgets 0..K per program) against monotonicity/threshold and length oracles",
   design="4/C06"),
 "C07": dict(
   text="Stateful model checking of the real Compiled.RunContext / VM.run code: cmd/instr mechanically rewrites the current sources so that every mutex operation, atomic access of the abort flag (one per dispatched instruction), goroutine spawn, channel send/receive and select is a scheduling point of a controlled scheduler (engine/vsched); ALL interleavings of caller (RunContext(ctx); Set; RunContext; Get), the spawned VM goroutine(s) and a canceller calling cancel() at an arbitrary instant are explored by DFS with replay and a visited set over global state keys (scheduler state + caller observations + VM registers/frames/stack/globals) for six finite-state driver scripts (infinite loop, unbounded self tail recursion, nested loops, terminating, native call, run-time error). Invariants in every state (return value legal, at most one instruction dispatched after the abort store, VM goroutine terminated and lock free when the call returns), terminal checks (object reusable with correct results), deadlock detection and fair-cycle (livelock) analysis on the explored state graph.",
   note="Trusted: the rewriting rules of cmd/instr and the scheduler's model of sync/atomic/channels/select (code between two scheduling points runs atomically; races are C08's subject); the state key. Bounded delay is decided in VM steps, not wall-clock time; a long native call is outside the bound as the property says. If cmd/instr meets a construct it cannot model the check reports exhaustive:false and no verdict.",
   technique="stateful exhaustive interleaving exploration of the real code under a controlled scheduler (DFS + visited set, deadlock and fair-cycle detection)",
   engine="vsched", design="4/C07"),
 "C08": dict(
   text="Three exhaustive parts. (1) K=2/3 threads each running Set; Run; GetAll on their own clone of one compiled script (string-constant indexing, closures/function constants, source module, mutable input arrays, run-time error positions) under all instruction-level interleavings of the instrumented real code: per-clone results equal the sequential baseline in every terminal state. (2) all assignments of 1-2 calls from {Set, Get, GetAll, IsDefined, Run, RunContext, Clone} to 2-3 threads on ONE compiled object x all interleavings: every call/return history checked for linearizability with porcupine against a sequential model, and a vector-clock happens-before checker over instrumented accesses (every Compiled field, elements of the globals slice incl. the VM's view) reports unordered conflicting accesses. (3) per program of the strings/consts/func/stmt families: reflective deep snapshot (unexported fields) of everything reachable from a second clone and the original before/after running the first clone; any difference is memory written by one execution and reachable from another.",
   note="Trusted: cmd/instr rewriting and access annotation, the scheduler model, porcupine v1.3.0, the deep snapshot walker. Races inside host-supplied functions and below Go's memory model are outside.",
   technique="exhaustive interleaving exploration under a controlled scheduler + linearizability checking of all histories + happens-before race checking + snapshot-diff of shared state over enumerated programs",
   engine="vsched", design="4/C08"),
 "C09": dict(
   text="Explicit-state breadth-first search over operation sequences applied to live objects: 33 initial states (root made by immutable / freeze / module export / builtin-module table / host-built, over six literal shapes incl. shared sub-structure and error-held arrays, plus deliberately aliased roots for the proviso) x 119 operations (index/selector writes through global/local/free variables, slice, append, +, copy, freeze, immutable, splice, delete, for-in writes, child-taking, alias-then-write on root and derived variables), depth 3/4; successor = replay of the path on fresh objects + 1 operation; canonical state incl. aliasing graph and slice capacities; invariant in every state: the protected part of every protected root is unchanged, failed operations change nothing, freeze(x) == x and leaves x unchanged.",
   note="Trusted: the canonicaliser (arguments for dropped fields are in checks/c09/canon.go), the protection tracking of shallow vs deep roots. Writes only store scalars; bytes values are not in the alphabet.",
   technique="explicit-state BFS over operation sequences on the real objects with state canonicalisation and an invariant per state",
   engine="osm", design="4/C09"),
 "C10": dict(
   text="Exhaustive small-scope enumeration: every unordered pair and every singleton of a 75-value alphabet covering all runtime types and numeric/string boundary values, in host-input and literal form, each evaluated by the real compiler+VM; the comparison laws, the documented truthiness and conversion tables and copy-equality/independence are evaluated on every element. Right level because the laws relate two code paths (a?b vs b?a, Copy vs Equals) and a finite alphabet of boundary values is where one-sided edits show.",
   note="Trusted: the alphabet (engine/val), the transcription of docs/runtime-types.md in checks/c10 (refConv/refFalsy), the harness snapshot function. Values outside the alphabet are not covered.",
   technique="bounded exhaustive enumeration of value pairs/singletons against algebraic laws and a reference table",
   design="4/C10"),
 "C01": dict(
   text="Bounded exhaustive differential check of the real compile-and-run path (Script.Add/Compile/RunContext/GetAll) against a definitional reference interpreter written from the documentation: every binary operator x every ordered pair of a 75-value alphabet (host-input and literal form), every unary/ternary/selector/index/slice/index-assignment shape, every builtin x every argument tuple of arity 0..2 (3..4 over sub-alphabets), and every program of the cflow/func/stmt/alias families below a statement budget (control flow x closures x variadic/spread x all compound assignments x for-in forms x shadowing x aliasing-revealing write sequences, at top level and inside functions). Outcome class and all globals (also at the failure point) must agree on every element.",
   note="Trusted: engine/ref (principled rules from docs/*.md; pinned rules marked N: where the docs are silent, which only detect regressions), the generators, the snapshot function. Excluded as the property says: map iteration order, append capacity sharing, cyclic containers, clock/random/OS; format() is C17's.",
   technique="bounded exhaustive enumeration of programs and inputs against a reference interpreter (small-scope differential model checking)",
   engine="ref", design="4/C01"),
 "C02": dict(
   text="Explicit-state exploration of every compiled function (main, literals, closures, module functions) of every program of the cflow/func families (all statement sequences below a size budget over return/break/continue x loop forms x if/else x && || ?: x closures x recursion x variadic/spread calls, in main/function/closure/module placement) as a transition system over (pc, operand-stack height): structural invariants evaluated in every abstract state (operands in range, jumps on instruction boundaries, one non-negative height per pc on all paths, every path ends in RET/SUSPEND, tail-call shaped calls carry no residue). The model is bound to the implementation by the per-instruction VM probe: on every executed instruction of every probed run the real height must equal the model height. All paths of all functions are covered, not the executed one.",
   note="Trusted: the stack-effect table in engine/bcv (validated against the VM on every executed instruction), the hook accessors. Programs outside the family bounds are not covered.",
   technique="explicit-state search over the (pc,height) abstraction of emitted bytecode, exhaustive program enumeration, conformance by VM probe",
   engine="bcv", design="4/C02"),
 "C03": dict(
   text="Every program of the cflow/func families is compiled twice by the same compiler, with and without dead-code elimination (hook). Each function pair is explored as a product transition system over (pc_unoptimised, pc_optimised) from (0,0): related instructions identical up to jump operands, jump targets related again, identical reported source positions; all reachable unoptimised instructions get a partner, hence nothing removed was reachable. Both versions are then run with the same inputs and compared on globals, full error text and executed step count.",
   note="Trusted: the no-DCE hook (skips passes 1-4 and appends RET), engine/bcv decoder. Bounded by the family budgets.",
   technique="lock-step bisimulation (explicit product-state search) of optimised vs unoptimised bytecode + differential execution, exhaustive program enumeration",
   engine="bcv", design="4/C03"),
 "C11": dict(
   text="Metamorphic exhaustive check: for every base program of a statement family over variables a, b, c, m, arr (definitions, assignments, compound assignments, selector/index assignments through maps and arrays, if/else, for, for-in, closures bound to variables, nested closures, recursion, closures over parameters) the complete set of variants is executed: body moved into a function (globals -> locals), into a source module, into nested functions, each single sub-expression and each single statement wrapped in an immediately-invoked function literal and all at once (locals -> captured variables, free-of-free), consistent renamings; outcome class, output values and the normalised error line of every variant must equal the base program's. Programs in which a closure outlives the loop iteration that declared a captured variable are recognised syntactically and excluded, as the property allows.",
   note="Trusted: the transformations (checks/c11/transform.go) preserve meaning under the documented scoping rules; the exclusion recogniser. No reference interpreter is needed for the verdict.",
   technique="bounded exhaustive enumeration of programs x complete variant sets with a metamorphic (differential) oracle",
   design="4/C11"),
 "C12": dict(
   text="For every program of the consts family (all sequences of <=N snippets producing duplicate constants of each de-duplicable type across main/functions/closures/source modules/builtin modules, plus failing statements) and of the cflow/func families: original bytecode vs RemoveDuplicates vs gob Encode/Decode (of both) are all executed on fresh VMs and compared on globals and full error text incl. positions; transformed bytecode passes the C02 structural exploration; no equal de-duplicable constants remain.",
   note="Trusted: engine/bcv, harness snapshot. CLI file handling (cmd/tengo) itself is not driven, only Bytecode.Encode/Decode which it calls.",
   technique="bounded exhaustive program enumeration with differential execution of transformed bytecode + explicit-state structural check",
   engine="bcv", design="4/C12"),
 "C13": dict(
   text="Explicit enumeration of ALL import graphs over main + n source modules (every edge set incl. self-loops for n<=3: 4096 graphs at n=3; n=4 with out-degree <=2 thorough) x import orders x module body variants; oracle = graph reachability computed independently: compilation terminates and succeeds iff no cycle is reachable from main, the error names a module on a reachable cycle, every reachable module is compiled exactly once (marker constants), results equal the reference evaluation of the DAG. Plus exhaustive small-program parts: importer variables invisible inside modules (10 places x 10 reference forms), export of 17 value kinds, immutability of the imported value under 30 write operations, freshness of module state per import evaluation, and file-import isolation (8 import names x settings x decoy files; thorough: strace shows no decoy access).",
   note="Trusted: the reachability reference and value reference in checks/c13. Import chains through file modules are not enumerated.",
   technique="exhaustive enumeration of import graphs and module-body variants against a graph-reachability reference model",
   design="4/C13"),
 "C14": dict(
   text="Every failing program of the family failing-operation kinds (23) x statement forms holding the failing expression (10) x placements (main, if/else/for/for-in bodies, after eliminated dead code, nested function, closure over captured variables, copied function, module function, module top level) x call depth 0..2/3 x the statement form of each active call is run; the reference interpreter supplies the innermost executing statement and the active call chain, the generator's printer the span of every statement: the first location must lie in the failing statement's own text (its span minus nested statements), each following trace line inside the statement containing the corresponding active call, one line per active call, right file names. Sentinel errors (index out of bounds, stack overflow, allocation limit, bytes limit) and host-function errors are checked with errors.Is/errors.As through Run and RunContext.",
   note="Trusted: engine/ref for the failing statement and call chain, engine/gen printer spans. Error text is not compared, only positions and identities.",
   technique="bounded exhaustive enumeration of failing programs; oracle = generator span map + reference interpreter's failure location/call chain",
   engine="ref", design="4/C14"),
 "C15": dict(
   text="(1) Explicit-state BFS over API histories on real Script/Compiled objects (Add, Remove, Compile, Run, c.Run, c.RunContext, Set, Get, GetAll, IsDefined, Clone over 3 names x 4-5 Go values x 5 scripts, depth 5/6, successor = replay on fresh objects + 1 op, canonical state de-duplication) with a plain-Go reference model checked at every transition and in every state (incl. leaks between script, compiled objects and clones). (2) every Go value of the supported kinds (1043 values incl. nested maps/slices and unsupported kinds) through FromInterface/ToInterface against the documented table. (3) every typed Variable accessor on every value of the alphabet against the documented coercion table; Eval equivalence.",
   note="Trusted: the reference model (checks/c15/model.go) and the transcription of docs/interoperability.md and docs/runtime-types.md. Compile is modelled as sharing the script's variable objects (docs silent).",
   technique="explicit-state BFS over API call histories against a reference model + exhaustive value enumeration against documented conversion tables",
   engine="osm", design="4/C15"),
 "C16": dict(
   text="Parameter shapes (4) x extra locals (0..2) x per-iteration closure capture x 14 syntactic call contexts (7 in claimed tail position incl. && / || right operands, parentheses, if/else, loop, map-method indirection; 7 not) x recursion depths at every capacity boundary (1021..1025, 2047..2049) and far beyond (1e5, 1e6 thorough), compared with the reference interpreter which runs syntactic tail self-calls as a loop: tail-position programs must complete at every depth with the loop-equivalent value and captured per-iteration parameters; non-tail programs give the reference value within capacity and an error beyond it, never a wrong value.",
   note="Trusted: engine/ref (tail position = documented rule). Ternary branches and a discarded call as last statement are unclaimed optimisations: value-or-error accepted, wrong values not.",
   technique="bounded exhaustive enumeration of recursive function shapes x depths against a reference interpreter with explicit tail-call semantics",
   engine="ref", design="4/C16"),
 "C17": dict(
   text="Exhaustive enumeration of the documented directive grammar (32 flag subsets x width x precision x explicit argument index x 20 verbs) against every argument list of length 0-3 over per-type alphabets (boundary ints, special floats, invalid UTF-8 strings, bools, bytes; '*' operands), hand-written re-indexing shapes, and all format strings up to length 5/6 over a 17-symbol alphabet; each compared with fmt.Sprintf of the host toolchain (minus the three exclusions the property lists), through tengo.Format, builtin format and fmt.sprintf; plus the same strings under a small MaxStringLen for 'string or limit error, never a panic'.",
   note="Trusted: Go's fmt as executable specification (go1.23), the exclusion logic for %q on non-code-point ints / '#' with %x on floats / EXTRA rendering. Bounded by the alphabets and string length.",
   technique="bounded exhaustive enumeration of format directives/strings x argument lists against Go's fmt as reference model",
   design="4/C17"),
 "C18": dict(
   text="Decoder: every symbol string up to length 5/6 over a 26-symbol JSON alphabet (plus deeper sub-alphabet, string-literal atoms incl. surrogate escapes and broken UTF-8, number boundary spellings, nesting depths, all bytes in templates) is decoded and compared with encoding/json (Valid + UseNumber decode): accept/reject agreement, no panic, same data, int/float typing. Encoder: all values of depth <= 2/3, width <= 2 over boundary scalars: valid JSON, read identically by encoding/json, and decoded back to an equal value; also through the script-level json module.",
   note="Trusted: encoding/json of the host toolchain as the reference, the independent tree comparer. Cyclic containers and nesting deeper than 20000 are not driven (fatal stack overflow is C05's topic).",
   technique="bounded exhaustive enumeration of byte strings / values against encoding/json as reference model",
   design="4/C18"),
 "C19": dict(
   text="Every function and constant of text, math, base64, hex, enum and the clock-independent part of times x every argument tuple of the documented arity over typed alphabets (strings incl. regex/base64/hex shapes, ints, floats incl. NaN/Inf, bytes, times incl. non-UTC zones, arrays, functions) plus arity +-1 and one wrong-typed value of every other type per position, executed through the real module objects and (systematic subset; enum entirely) through scripts, compared with an oracle table name -> direct Go call written independently from docs/stdlib-*.md; Go errors must surface as error values, wrong counts/non-convertible types as run-time errors.",
   note="Trusted: the oracle tables (checks/c19/spec_*.go) transcribed from the docs, Go's strings/strconv/regexp/math/encoding/time. Outside the Go function's domain (Go itself panics) nothing is claimed. Convertible wrong-typed arguments may be coerced or rejected (docs silent). times.now/since/until read the clock and are not covered.",
   technique="bounded exhaustive enumeration of function x argument tuples against direct Go calls as reference model",
   design="4/C19"),
 "C20": dict(
   text="(a) all expression trees with <= 3/4 operators over the 19 binary + 4 unary operators + ternary + postfix forms, printed with minimal parentheses from the documented precedence table, must parse back to the generator's tree; (b) all adjacent token pairs (61 tokens squared) across newline/comment separators in 15 contexts must scan like ';' exactly for the Go-style trigger set; (c) all number spellings up to length 5/6 over a 16-symbol alphabet and all char/string bodies up to length 4/6 must be accepted exactly when go/scanner accepts them, with go/constant's value; (d) every program of a statement-level family must print, re-parse and compile to identical instructions and constants.",
   note="Trusted: go/scanner + go/constant as literal reference; the documented precedence table; Go's semicolon rule carried to Tengo's tokens (the docs do not list the trigger set; pinned, see evidence assumptions).",
   technique="bounded exhaustive enumeration of expression trees, token pairs, literal spellings and programs against generator trees / go/scanner / print-reparse-recompile",
   design="4/C20"),
}

NOT_YET = {}
# additions made after the seeded-change rounds (DESIGN.md 11.6)
EXTRA = {
 "C01": "Program families also cover: index assignment through local and captured variables, spread into variadic callees, growth of empty slices of immutable arrays, function literals inside loops, limit programs (operands beyond one / two bytes, code beyond 64 KiB, constant pools with duplicates beyond 256 entries), compound assignments on every target kind.",
 "C02": "Also: the limits family (operands beyond one / two bytes, 256 captured variables, code beyond 64 KiB), the consts family (constant references after de-duplication incl. host-object modules), compound-assignment tails, function literals with loops inside loops.",
 "C03": "Also: dead-code shapes inside a function that contains a longer nested literal, short-circuit / conditional returns with an undefined operand, and the limits family through the optimiser's decode / re-encode.",
 "C04": "Also: CR in the hostile byte alphabet, limit programs around the parser's 10-error bailout (scanner and parser errors), code beyond 64 KiB with and without dead code, custom import values after de-duplicated constants.",
 "C05": "Also: after a FAILED run the same object is given benign inputs and compared with a freshly compiled object; slices taken before the array is shrunk.",
 "C06": "Also: recursion through distinct function objects with one slot per frame (frame limit), and the same VM run repeatedly at the threshold budget.",
 "C07": "Drivers: hand-written ones (loops, tail recursion, nested / closure / module loops, loops made of unconditional jumps only, native calls, run-time errors, panicking host functions) plus a generated grid of 8 loop forms x 10 bodies (diagonal in quick, all 80 in thorough), each also with an observer thread; a step that never reaches another scheduling point is reported as a hang.",
 "C08": "sync.Pool (the printer pool behind format()) is a scheduling point too (vsched.Pool); clone scripts also call format(), fail inside a source module, and install their own instance of a builtin module with a mutable attribute; read-lock sections are not ordered with each other in the happens-before model.",
 "C09": "Also: spread into variadic callees, empty slices followed by growth, literals with a non-last mutable child.",
 "C12": "Also: host modules whose value is a bare singleton / scalar / error / bytes / time / unnamed table, file-import programs (error texts with file names through Encode/Decode), idempotence (de-duplicate twice, second Encode/Decode), the limits family (constant pools beyond 256 entries with duplicates).",
 "C13": "Also: modules that export before they import, containers exported through every expression form, isolation places as the product importer x variable location x import location, module names with escapes, freshness of modules with a self-referencing top-level closure.",
 "C14": "Also: a host-error grid (33 error shapes x 14 routes into the VM x Run/RunContext), engine sentinels as kinds x sites, recursive / mutually recursive failing programs, and the same failure reported again by a clone.",
 "C16": "Also: the function first called with 1021 / 1022 frames in use, locals live across the call, removed dead code before the tail call, one-instruction wrappers between call and return, sibling closure instances.",
 "C17": "Also: '*' operands beyond the 68-byte scratch buffer, flag subsets in both orders.",
 "C19": "Also: a sequential exact-fit phase: with tengo.MaxStringLen set to the length of the Go result the function must still return it.",
 "C20": "Also: statements that Go's parser accepts must be accepted; blank identifiers in for-in forms; escape digits around the surrogate range.",
}
for _k, _v in EXTRA.items():
    CHECKS[_k]["text"] += " " + _v


def main():
    checks = []
    for pid in sorted(CHECKS):
        c = CHECKS[pid]
        checks.append({
            "property_id": pid,
            "quick_cmd": f"./run {pid} quick",
            "thorough_cmd": f"./run {pid} thorough",
            "evidence_file": f"/verif/evidence/{pid}.json",
            "replay_cmd_template": "./run replay {path}",
            "engine": c.get("engine", "enum"),
            "level_claimed": {"category": "model_checking", "text": c["text"], "design_ref": "DESIGN.md section " + c["design"]},
            "level_note": c["note"],
            "technique": c["technique"],
        })
    na = []
    for i in range(1, 21):
        pid = f"C{i:02d}"
        if pid not in CHECKS:
            na.append({"property_id": pid, "reason": NOT_YET.get(pid, "check not built yet in this round (design in DESIGN.md section 4); not claimed until its check exists and passes on the unchanged tree")})
    m = {
        "version": 1,
        "setup_cmd": "./run setup",
        "hooks": {
            "guard": "verif",
            "enable": "go build -tags verif (checks are built by ./run with -tags verif from /repo's working tree via the go.mod replace directive)",
            "baseline_off_cmd": "cd /repo && GOFLAGS=-mod=mod GOPROXY=off GOSUMDB=off go test -json -vet=off -count=1 -timeout 25m ./...",
            "source_commits": HOOK_COMMITS,
            "add_only": True,
        },
        "engines": [
            {"name": "bcv", "path": "engine/bcv, engine/gen", "serves_properties": ["C02", "C03", "C12"], "kind_free_text": "bytecode abstract machine: explicit-state search over (pc,height) and over optimised/unoptimised pc pairs; program families enumerated exhaustively by replayed choice trees"},
            {"name": "vsched", "path": "engine/vsched, engine/vmk, cmd/instr, engine/deep", "serves_properties": ["C07", "C08"], "kind_free_text": "controlled scheduler + stateful interleaving explorer (DFS with replay, visited set, deadlock/fair-cycle detection, vector-clock race checker) over the real code rewritten by cmd/instr"},
            {"name": "osm", "path": "checks/c09, checks/c15 (own BFS drivers)", "serves_properties": ["C09", "C15"], "kind_free_text": "explicit-state BFS over operation sequences on live objects with replay-from-root successors and canonical state de-duplication"},
            {"name": "ref", "path": "engine/ref, engine/gen", "serves_properties": ["C01", "C14", "C16"], "kind_free_text": "definitional reference interpreter over the generator AST + exhaustive program families"},
            {"name": "enum", "path": "engine/report, engine/val, engine/tg", "serves_properties": sorted(CHECKS), "kind_free_text": "bounded exhaustive enumeration driver: deterministic case lists, parallel execution on the real implementation, violation grouping by signature, known-finding matching, evidence/replay writers"},
        ],
        "checks": checks,
        "not_applicable": na,
        "notes": "All checks: ./run <id> quick|thorough; replay: ./run replay <file>. Known findings live in KNOWN_FINDINGS.txt.",
    }
    json.dump(m, open("MANIFEST.json", "w"), indent=1)
    print("wrote MANIFEST.json with", len(checks), "checks")

main()
