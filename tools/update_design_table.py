#!/usr/bin/env python3
"""Replaces the block between the DETECTION-TABLE markers of DESIGN.md by the table generated from seeded/*/meta.json."""
import subprocess, re
t = subprocess.run(['python3', '/verif/tools/detection_table.py'], capture_output=True, text=True).stdout
p = '/verif/DESIGN.md'
s = open(p).read()
s = re.sub(r'<!-- DETECTION-TABLE-BEGIN -->.*?<!-- DETECTION-TABLE-END -->',
           lambda m: '<!-- DETECTION-TABLE-BEGIN -->\n' + t + '<!-- DETECTION-TABLE-END -->', s, flags=re.S)
open(p, 'w').write(s)
print("updated")
