#!/bin/bash
# queue runner: each line of /var/tmp/seedq.txt = "<dir> <id> <checks...>"; processed in order; line STOP ends it
cd /verif
n=0
while true; do
  total=$(wc -l < /var/tmp/seedq.txt)
  if [ "$n" -lt "$total" ]; then
    n=$((n+1)); line=$(sed -n "${n}p" /var/tmp/seedq.txt)
    [ "$line" = STOP ] && exit 0
    [ -z "$line" ] && continue
    set -- $line
    echo "##### $2"; tools/seedeval.sh "$@"
  else sleep 20; fi
done
