#!/usr/bin/env python3
"""Prints the markdown table of seeded property-breaking changes and the checks that caught them (from seeded/*/meta.json)."""
import json, glob, os
rows=[]
for f in sorted(glob.glob('/verif/seeded/*/meta.json')):
    m=json.load(open(f))
    c=m.get('confirmed',{})
    rows.append((m.get('id'), m.get('property'), ' '.join(m.get('files_changed',[])), (m.get('what_it_breaks') or '')[:150].replace('|','/').replace('\n',' '),
                 (m.get('needs_to_manifest') or '')[:150].replace('|','/').replace('\n',' '),
                 c.get('repo_tests_on_mutant'), ' '.join(m.get('caught_by',[])) or '-', ' '.join(m.get('missed_by',[])) or '-'))
print('| seed | property | files | what it breaks | needs | repo tests | caught by | not flagged by |')
print('|---|---|---|---|---|---|---|---|')
for r in rows:
    print('| '+' | '.join(str(x) for x in r)+' |')
print()
print(f'{len(rows)} seeded changes; caught by at least one check: {sum(1 for r in rows if r[6] != "-")}')
