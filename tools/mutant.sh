#!/bin/bash
# Runs checks against a mutated copy of /repo without touching /repo:
#   tools/mutant.sh <patch.diff> <Cxx> [quick|thorough] [more Cxx ...]
# Also runs the repository's own test suite on the mutant (must stay green for a seeded change).
#   MUTANT_SKIP_TESTS=1 skips that.
set -u
patch=$(readlink -f "$1"); shift
tier=quick
props=()
for a in "$@"; do case $a in quick|thorough) tier=$a;; *) props+=("$a");; esac; done
export GOFLAGS=-mod=mod GOPROXY=off GOSUMDB=off GOTOOLCHAIN=local
W=$(mktemp -d /var/tmp/mutant-XXXXXX)
trap 'rm -rf "$W"' EXIT
rsync -a --exclude .git /repo/ "$W/repo/"
rsync -a --exclude .git --exclude evidence --exclude replays /verif/ "$W/verif/"
mkdir -p "$W/verif/evidence" "$W/verif/replays"
case "$patch" in
  *.sh) (cd "$W/repo" && bash "$patch") || { echo "mutation script failed"; exit 2; } ;;
  *.py) (cd "$W/repo" && python3 "$patch") || { echo "mutation script failed"; exit 2; } ;;
  *) (cd "$W/repo" && patch -p1 --no-backup-if-mismatch < "$patch" >/dev/null) || { echo "patch failed"; exit 2; } ;;
esac
if diff -rq /repo "$W/repo" --exclude .git >/dev/null; then echo "mutation changed nothing"; exit 2; fi
sed -i "s#=> /repo#=> $W/repo#" "$W/verif/go.mod"
if [ -z "${MUTANT_SKIP_TESTS:-}" ]; then
  (cd "$W/repo" && go build ./... && go test -vet=off -count=1 ./... >"$W/test.log" 2>&1) && echo "REPO TESTS: pass" || { echo "REPO TESTS: FAIL"; grep -E "^(--- FAIL|FAIL|ok)" "$W/test.log" | head; }
fi
rc=0
for p in "${props[@]}"; do
  (cd "$W/verif" && VERIF_ROOT="$W/verif" ./run "$p" "$tier" >"$W/$p.log" 2>&1; echo $? >"$W/$p.rc")
  grep -E "^(VIOLATION|INTERNAL|  signature|  what|C[0-9][0-9] )" "$W/$p.log" | head -${MUTANT_LINES:-14}
  echo "   (known-finding lines: $(grep -c '^KNOWN-FINDING' "$W/$p.log"), violation lines: $(grep -c '^VIOLATION' "$W/$p.log"))"
  echo "== $p exit=$(cat "$W/$p.rc")"
done
