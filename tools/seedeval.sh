#!/bin/bash
# Evaluates one independently produced property-breaking change.
#   tools/seedeval.sh <seed-out-dir (contains patch.diff, demo/, meta.json)> <id> <Cxx...>
# 1. confirms in a scratch copy of /repo that the patch applies, the repository's own tests stay green,
#    and the demonstration fails with the patch and passes without it;
# 2. runs the named checks (quick) against the patched copy;
# 3. stores everything under /verif/seeded/<id>/ (patch.diff, demo, meta.json with what was run and what caught it).
set -u
src=$(readlink -f "$1"); id=$2; shift 2
export GOFLAGS=-mod=mod GOPROXY=off GOSUMDB=off GOTOOLCHAIN=local
W=$(mktemp -d /var/tmp/seedeval-XXXXXX); trap 'rm -rf "$W"' EXIT
out=/verif/seeded/$id; mkdir -p "$out"
[ "$src" = "$(readlink -f "$out")" ] && { echo "source directory must not be the seeded/<id> directory itself (its demo/ would be removed)"; exit 2; }
cp "$src/patch.diff" "$out/patch.diff"; rm -rf "$out/demo"; cp -r "$src/demo" "$out/demo" 2>/dev/null
[ -f "$src/meta.json" ] && cp "$src/meta.json" "$out/author_meta.json"
rsync -a --exclude .git /repo/ "$W/clean/"; rsync -a --exclude .git /repo/ "$W/mut/"
(cd "$W/mut" && git init -q . 2>/dev/null; git apply --whitespace=nowarn "$out/patch.diff") || { echo "PATCH DOES NOT APPLY"; echo '{"status":"patch does not apply"}' > "$out/meta.json"; exit 2; }
changed=$(cd "$W" && diff -rq clean mut --exclude .git | grep -v "Only in mut: .git" | sed 's#.*mut/##; s# differ##' | tr '\n' ' ')
# repository tests on the mutant
(cd "$W/mut" && go build ./... && timeout 1500 go test -vet=off -count=1 ./... > "$W/repotests.log" 2>&1) && repotests=pass || repotests=FAIL
# demonstration: copy demo files into both trees (test files into the repo root or as given by RUN.txt)
runcmd=$(grep -m1 -E "go (test|run)" "$out/demo/RUN.txt" 2>/dev/null | sed 's/^[^g]*//')
demo() { # $1 = tree
  (cd "$1" && for f in "$out"/demo/*_test.go; do [ -f "$f" ] || continue
     # a demonstration goes into the directory of the package it declares (stdlib_test -> stdlib/, ...)
     case "$(sed -n 's/^package \([a-z_]*\).*/\1/p' "$f" | head -1)" in
       stdlib|stdlib_test) cp "$f" stdlib/;; json|json_test) cp "$f" stdlib/json/;;
       parser|parser_test) cp "$f" parser/;; token|token_test) cp "$f" token/;; *) cp "$f" .;; esac; done
   for d in "$out"/demo/*/; do [ -d "$d" ] && cp -r "$d" .; done
   for f in "$out"/demo/*.go; do case "$f" in *_test.go) ;; *) [ -f "$f" ] && mkdir -p zzdemo && cp "$f" zzdemo/;; esac; done
   if [ -n "$runcmd" ]; then timeout 900 bash -c "$runcmd" > "$W/demo.$2.log" 2>&1; else timeout 900 go test -vet=off -count=1 -run 'Seed|Demo' . > "$W/demo.$2.log" 2>&1; fi; echo $?)
}
rc_clean=$(demo "$W/clean" clean); rc_mut=$(demo "$W/mut" mut)
[ "$rc_clean" = 0 ] && d_clean=pass || d_clean="FAIL($rc_clean)"
[ "$rc_mut" != 0 ] && d_mut="fails(as intended)" || d_mut="PASSES(not a demonstration)"
echo "repo tests on mutant: $repotests | demo on clean tree: $d_clean | demo on mutant: $d_mut | files: $changed"
# our checks against the mutant
caught=""; missed=""
cp "$out/patch.diff" "$W/p.diff"
for p in "$@"; do
  MUTANT_SKIP_TESTS=1 MUTANT_LINES=6 timeout 3000 /verif/tools/mutant.sh "$W/p.diff" "$p" > "$W/check.$p.log" 2>&1
  if grep -q "== $p exit=1" "$W/check.$p.log" && ! grep -q "violation lines: 0)" "$W/check.$p.log"; then caught="$caught $p"; else missed="$missed $p"; fi
  grep -E "^(VIOLATION|  signature|== )" "$W/check.$p.log" | head -5
done
sigs=""
sigs=$(cat "$W"/check.*.log 2>/dev/null | grep "  signature:" | head -6 | sed 's/  signature: //' | tr '\n' ';' | tr -d '"' || true)
python3 - "$out" "$id" "$repotests" "$d_clean" "$d_mut" "$changed" "$caught" "$missed" "$sigs" "$runcmd" <<'PY'
import json,sys,os
out,id_,rt,dc,dm,ch,caught,missed,sigs,runcmd=sys.argv[1:11]
am={}
try: am=json.load(open(os.path.join(out,'author_meta.json')))
except Exception: pass
meta={"id":id_,"property":am.get("property"),"files_changed":ch.split(),"what_it_breaks":am.get("what_it_breaks"),
 "needs_to_manifest":am.get("needs_to_manifest"),
 "confirmed":{"patch_applies":True,"repo_tests_on_mutant":rt,"demo_on_unchanged_tree":dc,"demo_on_mutant":dm,"demo_command":runcmd},
 "checks_run":(caught+" "+missed).split(),"caught_by":caught.split(),"missed_by":missed.split(),"first_signatures":sigs,
 "how":"tools/seedeval.sh: scratch copies of /repo (never /repo itself); checks run through tools/mutant.sh (quick tier)"}
json.dump(meta,open(os.path.join(out,'meta.json'),'w'),indent=1)
print("caught by:",caught or "-", "| missed by:",missed or "-")
PY
