module verif

go 1.23

require (
	github.com/anishathalye/porcupine v1.3.0
	github.com/d5/tengo/v2 v2.0.0
)

replace github.com/d5/tengo/v2 => /repo
