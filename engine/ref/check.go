package ref

import (
	"fmt"

	"verif/engine/gen"
)

// Static rules (docs/tutorial.md "Variables and Scopes", "Modules"): the
// reference rejects a program at compile time exactly when one of these is
// violated. Returns "" when the program is well-formed.

type scope struct {
	names  map[string]bool
	parent *scope
	fn     bool // function boundary (this scope holds the parameters)
}

type checker struct {
	prog     *gen.Program
	err      string
	inFunc   int
	loops    []int // loop depth per function level
	module   bool
	visiting map[string]bool
	checked  map[string]bool
}

func (c *checker) fail(format string, a ...interface{}) {
	if c.err == "" {
		c.err = fmt.Sprintf(format, a...)
	}
}

func (s *scope) resolve(name string) (found bool, depth int) {
	d := 0
	for p := s; p != nil; p = p.parent {
		if p.names[name] {
			return true, d
		}
		d++
	}
	return false, 0
}

func isBuiltin(name string) bool {
	for _, b := range BuiltinNames {
		if b == name {
			return true
		}
	}
	return false
}

// Check validates main and every reachable module.
func Check(prog *gen.Program, inputs map[string]V) string {
	c := &checker{prog: prog, visiting: map[string]bool{}, checked: map[string]bool{}}
	top := &scope{names: map[string]bool{}}
	for _, b := range BuiltinNames {
		top.names[b] = true
	}
	for k := range inputs {
		top.names[k] = true
	}
	c.loops = []int{0}
	c.stmts(prog.Main, top)
	return c.err
}

func (c *checker) checkModule(name string) {
	if c.visiting[name] {
		c.fail("cyclic module import: %s", name)
		return
	}
	if c.checked[name] {
		return
	}
	body, ok := c.prog.Modules[name]
	if !ok {
		c.fail("module '%s' not found", name)
		return
	}
	c.visiting[name] = true
	saved := *c
	c.module, c.inFunc, c.loops = true, 0, []int{0}
	// a module sees only its own variables and the builtin functions
	builtins := &scope{names: map[string]bool{}}
	for _, b := range BuiltinNames {
		builtins.names[b] = true
	}
	c.stmts(body, &scope{names: map[string]bool{}, parent: builtins, fn: true})
	c.module, c.inFunc, c.loops = saved.module, saved.inFunc, saved.loops
	c.visiting[name] = false
	c.checked[name] = true
}

func (c *checker) stmts(ss []gen.Stmt, s *scope) {
	for _, st := range ss {
		if c.err != "" {
			return
		}
		c.stmt(st, s)
	}
}

func (c *checker) blockScope(ss []gen.Stmt, s *scope) {
	if len(ss) == 0 {
		return
	}
	c.stmts(ss, &scope{names: map[string]bool{}, parent: s})
}

func (c *checker) assign(lhs gen.Expr, op string, rhs gen.Expr, s *scope) {
	name, sels := baseIdent(lhs)
	if name == "" {
		c.fail("invalid assignment target")
		return
	}
	if op == ":=" {
		if len(sels) > 0 {
			c.fail("operator ':=' not allowed with selector")
			return
		}
		if found, depth := s.resolve(name); found && depth == 0 {
			c.fail("'%s' redeclared in this block", name)
			return
		}
		if _, isFn := rhs.(*gen.FuncLit); isFn {
			s.names[name] = true
			c.expr(rhs, s)
			return
		}
		c.expr(rhs, s)
		s.names[name] = true
		return
	}
	found, _ := s.resolve(name)
	if !found {
		c.fail("unresolved reference '%s'", name)
		return
	}
	if isBuiltin(name) && !c.shadowed(name, s) {
		c.fail("cannot assign to builtin '%s'", name)
		return
	}
	if op != "=" {
		c.expr(lhs, s)
	}
	c.expr(rhs, s)
	for i := len(sels) - 1; i >= 0; i-- {
		c.expr(sels[i], s)
	}
}

// shadowed reports whether name resolves to a user variable rather than the builtin.
func (c *checker) shadowed(name string, s *scope) bool {
	for p := s; p != nil; p = p.parent {
		if p.names[name] {
			return p.parent != nil || !isBuiltin(name) // the outermost scope holds the builtins themselves
		}
	}
	return false
}

func (c *checker) stmt(st gen.Stmt, s *scope) {
	switch st := st.(type) {
	case *gen.ExprStmt:
		c.expr(st.X, s)
	case *gen.Assign:
		c.assign(st.LHS, st.Op, st.RHS, s)
	case *gen.IncDec:
		c.assign(st.X, "+=", gen.N("1"), s)
	case *gen.Block:
		c.blockScope(st.Body, s)
	case *gen.If:
		is := &scope{names: map[string]bool{}, parent: s}
		if st.Init != nil {
			c.stmt(st.Init, is)
		}
		c.expr(st.Cond, is)
		c.blockScope(st.Then, is)
		if st.Else != nil {
			if len(st.Else) == 1 {
				if ei, ok := st.Else[0].(*gen.If); ok {
					c.stmt(ei, is)
					return
				}
			}
			c.blockScope(st.Else, is)
		}
	case *gen.For:
		fs := &scope{names: map[string]bool{}, parent: s}
		if st.Init != nil {
			c.stmt(st.Init, fs)
		}
		if st.Cond != nil {
			c.expr(st.Cond, fs)
		}
		c.loops[len(c.loops)-1]++
		c.blockScope(st.Body, fs)
		c.loops[len(c.loops)-1]--
		if st.Post != nil {
			c.stmt(st.Post, fs)
		}
	case *gen.ForIn:
		fs := &scope{names: map[string]bool{}, parent: s}
		c.expr(st.X, fs)
		kn, vn := st.Key, st.Val
		if vn == "" {
			kn, vn = "_", st.Key
		}
		if kn != "_" {
			fs.names[kn] = true
		}
		if vn != "_" {
			fs.names[vn] = true
		}
		c.loops[len(c.loops)-1]++
		c.blockScope(st.Body, fs)
		c.loops[len(c.loops)-1]--
	case *gen.Break, *gen.Continue:
		if c.loops[len(c.loops)-1] == 0 {
			c.fail("break/continue not allowed outside loop")
		}
	case *gen.Return:
		if c.inFunc == 0 && !c.module {
			c.fail("return not allowed outside function")
			return
		}
		if st.X != nil {
			c.expr(st.X, s)
		}
	case *gen.Export:
		if c.inFunc > 0 {
			c.fail("export not allowed inside function")
			return
		}
		if !c.module {
			return // ignored, not even compiled, in the main script
		}
		c.expr(st.X, s)
	}
}

func (c *checker) expr(e gen.Expr, s *scope) {
	if c.err != "" || e == nil {
		return
	}
	switch e := e.(type) {
	case *gen.Lit:
	case *gen.Ident:
		if found, _ := s.resolve(e.Name); !found {
			c.fail("unresolved reference '%s'", e.Name)
		}
	case *gen.Paren:
		c.expr(e.X, s)
	case *gen.Bin:
		c.expr(e.L, s)
		c.expr(e.R, s)
	case *gen.Un:
		c.expr(e.X, s)
	case *gen.Cond:
		c.expr(e.C, s)
		c.expr(e.T, s)
		c.expr(e.F, s)
	case *gen.Call:
		c.expr(e.F, s)
		for _, a := range e.Args {
			c.expr(a, s)
		}
	case *gen.Index:
		c.expr(e.X, s)
		c.expr(e.I, s)
	case *gen.Sel:
		c.expr(e.X, s)
	case *gen.Slice:
		c.expr(e.X, s)
		c.expr(e.Lo, s)
		c.expr(e.Hi, s)
	case *gen.ArrayLit:
		for _, x := range e.Elems {
			c.expr(x, s)
		}
	case *gen.MapLit:
		for _, x := range e.Vals {
			c.expr(x, s)
		}
	case *gen.FuncLit:
		fs := &scope{names: map[string]bool{}, parent: s, fn: true}
		for _, p := range e.Params {
			fs.names[p] = true
		}
		c.inFunc++
		c.loops = append(c.loops, 0)
		c.blockScope(e.Body, fs)
		c.loops = c.loops[:len(c.loops)-1]
		c.inFunc--
	case *gen.Immutable:
		c.expr(e.X, s)
	case *gen.ErrorE:
		c.expr(e.X, s)
	case *gen.Import:
		c.checkModule(e.Name)
	}
}
