package ref

import (
	"go/constant"
	"go/token"
	"strconv"
	"strings"

	"verif/engine/gen"
)

func litValue(l *gen.Lit) (V, bool) {
	src := l.Src
	switch l.Kind {
	case "undefined":
		return Undefined, true
	case "bool":
		return Bool(src == "true"), true
	case "int":
		neg := strings.HasPrefix(src, "-")
		c := constant.MakeFromLiteral(strings.TrimPrefix(src, "-"), token.INT, 0)
		if c.Kind() != constant.Int {
			return nil, false
		}
		n, ok := constant.Int64Val(c)
		if !ok {
			return nil, false
		}
		if neg {
			n = -n
		}
		return Int(n), true
	case "float":
		f, err := strconv.ParseFloat(strings.ReplaceAll(src, "_", ""), 64)
		if err != nil {
			return nil, false
		}
		return Float(f), true
	case "string":
		s, err := strconv.Unquote(src)
		if err != nil {
			return nil, false
		}
		return Str(s), true
	case "char":
		s, err := strconv.Unquote(src)
		if err != nil {
			return nil, false
		}
		r := []rune(s)
		if len(r) != 1 {
			return nil, false
		}
		return Char(r[0]), true
	}
	return nil, false
}

func unquoteKey(k string) string {
	if strings.HasPrefix(k, "\"") {
		if s, err := strconv.Unquote(k); err == nil {
			return s
		}
	}
	return k
}
