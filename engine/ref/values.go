// Package ref is the reference semantics of Tengo used as the oracle of C01
// (and reused by C05/C06/C11/C14/C16): a deliberately boring definitional
// interpreter over the generator's AST, written from docs/tutorial.md,
// docs/operators.md, docs/runtime-types.md and docs/builtins.md. It shares
// no code with /repo: values are its own tagged structs, environments are
// linked maps (no slots, no operand stack), closures capture variables by
// reference, arrays are views on explicit backing stores so that aliasing is
// explicit.
//
// Rules are of two kinds (see DESIGN.md appendix A): principled (P, from the
// documentation) and pinned (N, docs silent: reviewed behaviour of the pinned
// tree). Pinned rules are marked "N:" in comments.
package ref

import (
	"math"
	"sort"
	"strconv"
	"strings"
	"time"

	"github.com/d5/tengo/v2"
)

// V is a reference value.
type V interface{}

type (
	Int   int64
	Float float64
	Bool  bool
	Char  rune
	Str   string
	Undef struct{}
	Bytes struct{ B []byte }
	Time  struct{ T time.Time }
	// store is the backing storage of arrays; slices of an array are views on the same store.
	store struct{ e []V }
	Array struct {
		S      *store
		Off, N int
		Imm    bool
	}
	Map struct {
		M   map[string]V
		Imm bool
	}
	Err     struct{ V V }
	Builtin struct{ Name string }
	// HostFn is a host-provided callable (UserFunction).
	HostFn struct {
		Name string
		Fn   func(args []V) (V, error)
	}
)

// Undefined is the single undefined value.
var Undefined = Undef{}

// NewArray allocates a fresh array.
func NewArray(elems []V, imm bool) *Array {
	cp := make([]V, len(elems))
	copy(cp, elems)
	return &Array{S: &store{e: cp}, N: len(cp), Imm: imm}
}

// Elems returns the live elements (a view; do not retain across mutation).
func (a *Array) Elems() []V { return a.S.e[a.Off : a.Off+a.N] }

// TypeName follows the names documented for type_name().
func TypeName(v V) string {
	switch x := v.(type) {
	case Int:
		return "int"
	case Float:
		return "float"
	case Bool:
		return "bool"
	case Char:
		return "char"
	case Str:
		return "string"
	case Undef:
		return "undefined"
	case *Bytes:
		return "bytes"
	case *Time:
		return "time"
	case *Array:
		if x.Imm {
			return "immutable-array"
		}
		return "array"
	case *Map:
		if x.Imm {
			return "immutable-map"
		}
		return "map"
	case *Err:
		return "error"
	case *Func:
		return "compiled-function"
	case *Builtin:
		return "builtin-function:" + x.Name
	case *HostFn:
		return "user-function:" + x.Name
	}
	return "?"
}

// Snapshot renders a value in exactly the format of val.Snapshot (engine/val).
func Snapshot(v V) string {
	var sb strings.Builder
	snap(&sb, v, map[interface{}]bool{}, 0)
	return sb.String()
}

func snap(sb *strings.Builder, v V, on map[interface{}]bool, depth int) {
	if depth > 64 {
		sb.WriteString("<deep>")
		return
	}
	switch x := v.(type) {
	case Int:
		sb.WriteString("int:" + strconv.FormatInt(int64(x), 10))
	case Float:
		f := float64(x)
		if math.IsNaN(f) {
			sb.WriteString("float:NaN")
		} else {
			sb.WriteString("float:" + strconv.FormatUint(math.Float64bits(f), 16) + "(" + strconv.FormatFloat(f, 'g', -1, 64) + ")")
		}
	case Bool:
		sb.WriteString("bool:" + strconv.FormatBool(bool(x)))
	case Char:
		sb.WriteString("char:" + strconv.FormatInt(int64(x), 10))
	case Str:
		sb.WriteString("string:" + strconv.Quote(string(x)))
	case *Bytes:
		sb.WriteString("bytes:" + strconv.Quote(string(x.B)))
	case *Time:
		sb.WriteString("time:" + strconv.FormatInt(x.T.Unix(), 10) + "." + strconv.Itoa(x.T.Nanosecond()))
	case Undef:
		sb.WriteString("undefined")
	case *Err:
		sb.WriteString("error(")
		snap(sb, x.V, on, depth+1)
		sb.WriteString(")")
	case *Array:
		if on[x] {
			sb.WriteString("<cycle>")
			return
		}
		on[x] = true
		defer delete(on, x)
		if x.Imm {
			sb.WriteString("imarray[")
		} else {
			sb.WriteString("array[")
		}
		for i, e := range x.Elems() {
			if i > 0 {
				sb.WriteString(",")
			}
			snap(sb, e, on, depth+1)
		}
		sb.WriteString("]")
	case *Map:
		if on[x] {
			sb.WriteString("<cycle>")
			return
		}
		on[x] = true
		defer delete(on, x)
		keys := make([]string, 0, len(x.M))
		for k := range x.M {
			keys = append(keys, k)
		}
		sort.Strings(keys)
		if x.Imm {
			sb.WriteString("immap{")
		} else {
			sb.WriteString("map{")
		}
		for i, k := range keys {
			if i > 0 {
				sb.WriteString(",")
			}
			sb.WriteString(strconv.Quote(k) + ":")
			snap(sb, x.M[k], on, depth+1)
		}
		sb.WriteString("}")
	case *Func:
		sb.WriteString("func/compiled")
	case *Builtin:
		sb.WriteString("func/builtin:" + x.Name)
	case *HostFn:
		sb.WriteString("func/user:" + x.Name)
	default:
		sb.WriteString("<?>")
	}
}

// FromObject converts a host-injected tengo object into a reference value,
// preserving sharing between sub-structures (an object reachable twice maps
// to one reference object).
func FromObject(o tengo.Object) V {
	return fromObject(o, map[tengo.Object]V{})
}

func fromObject(o tengo.Object, memo map[tengo.Object]V) V {
	if v, ok := memo[o]; ok {
		return v
	}
	switch x := o.(type) {
	case *tengo.Int:
		return Int(x.Value)
	case *tengo.Float:
		return Float(x.Value)
	case *tengo.Bool:
		return Bool(!x.IsFalsy())
	case *tengo.Char:
		return Char(x.Value)
	case *tengo.String:
		return Str(x.Value)
	case *tengo.Undefined:
		return Undefined
	case *tengo.Bytes:
		b := &Bytes{B: append([]byte{}, x.Value...)}
		memo[o] = b
		return b
	case *tengo.Time:
		return &Time{T: x.Value}
	case *tengo.Array:
		a := &Array{S: &store{e: make([]V, len(x.Value))}, N: len(x.Value)}
		memo[o] = a
		for i, e := range x.Value {
			a.S.e[i] = fromObject(e, memo)
		}
		return a
	case *tengo.ImmutableArray:
		a := &Array{S: &store{e: make([]V, len(x.Value))}, N: len(x.Value), Imm: true}
		memo[o] = a
		for i, e := range x.Value {
			a.S.e[i] = fromObject(e, memo)
		}
		return a
	case *tengo.Map:
		m := &Map{M: map[string]V{}}
		memo[o] = m
		for k, e := range x.Value {
			m.M[k] = fromObject(e, memo)
		}
		return m
	case *tengo.ImmutableMap:
		m := &Map{M: map[string]V{}, Imm: true}
		memo[o] = m
		for k, e := range x.Value {
			m.M[k] = fromObject(e, memo)
		}
		return m
	case *tengo.Error:
		e := &Err{}
		memo[o] = e
		e.V = fromObject(x.Value, memo)
		return e
	case *tengo.BuiltinFunction:
		return &Builtin{Name: x.Name}
	case *tengo.UserFunction:
		return &HostFn{Name: x.Name, Fn: func(args []V) (V, error) { return Undefined, nil }}
	}
	return Undefined
}
