package ref

import (
	"time"
)

// BuiltinNames lists the builtin functions the reference defines. "format"
// is deliberately absent (its semantics are C17's subject): programs calling
// it are reported as Unsupported.
var BuiltinNames = []string{"len", "copy", "append", "delete", "splice", "string", "int", "bool", "float",
	"char", "bytes", "time", "is_int", "is_float", "is_string", "is_bool", "is_char", "is_bytes", "is_array",
	"is_immutable_array", "is_map", "is_immutable_map", "is_iterable", "is_time", "is_error", "is_undefined",
	"is_function", "is_callable", "type_name", "format", "range", "freeze"}

// MaxBytesLen mirrors the default limit (tengo.MaxBytesLen) for bytes(N).
const MaxBytesLen = 2147483647

// ErrUnsupported marks programs outside the reference's domain (skipped, counted).
var ErrUnsupported = rerr("unsupported", "construct outside the reference semantics")

func wrongArgs() *RunErr { return rerr("wrong-args", "wrong number of arguments") }

// CallBuiltin evaluates a builtin function.
func CallBuiltin(name string, args []V) (V, *RunErr) {
	n := len(args)
	conv := func(f func(V) (V, bool, *RunErr)) (V, *RunErr) {
		if n != 1 && n != 2 {
			return nil, wrongArgs()
		}
		r, ok, e := f(args[0])
		if e != nil {
			return nil, e
		}
		if ok {
			return r, nil
		}
		if n == 2 {
			return args[1], nil
		}
		return Undefined, nil
	}
	is := func(f func(V) bool) (V, *RunErr) {
		if n != 1 {
			return nil, wrongArgs()
		}
		return Bool(f(args[0])), nil
	}
	switch name {
	case "len":
		if n != 1 {
			return nil, wrongArgs()
		}
		switch x := args[0].(type) {
		case *Array:
			return Int(x.N), nil
		case Str:
			return Int(len(x)), nil // N: byte length
		case *Bytes:
			return Int(len(x.B)), nil
		case *Map:
			return Int(len(x.M)), nil
		}
		return nil, rerr("arg-type", "len of "+TypeName(args[0]))
	case "copy":
		if n != 1 {
			return nil, wrongArgs()
		}
		return Copy(args[0]), nil
	case "append":
		if n < 2 {
			return nil, wrongArgs()
		}
		a, ok := args[0].(*Array)
		if !ok {
			return nil, rerr("arg-type", "append to "+TypeName(args[0]))
		}
		if a.N+len(args) > maxElems {
			panic(errOrderDependent)
		}
		// P: result contains old + new elements in fresh storage (capacity sharing is excluded by the property)
		return NewArray(append(append([]V{}, a.Elems()...), args[1:]...), false), nil
	case "delete":
		if n != 2 {
			return nil, wrongArgs()
		}
		m, ok := args[0].(*Map)
		if !ok || m.Imm {
			return nil, rerr("arg-type", "delete on "+TypeName(args[0]))
		}
		k, ok := args[1].(Str)
		if !ok {
			return nil, rerr("arg-type", "delete key "+TypeName(args[1]))
		}
		delete(m.M, string(k))
		return Undefined, nil
	case "splice":
		if n == 0 {
			return nil, wrongArgs()
		}
		a, ok := args[0].(*Array)
		if !ok || a.Imm {
			return nil, rerr("arg-type", "splice on "+TypeName(args[0]))
		}
		start, count := 0, a.N
		if n > 1 {
			s, ok := args[1].(Int)
			if !ok {
				return nil, rerr("arg-type", "splice start "+TypeName(args[1]))
			}
			if s < 0 || int64(s) > int64(a.N) {
				return nil, rerr("index-oob", "splice start")
			}
			start = int(s)
		}
		if n > 2 {
			c, ok := args[2].(Int)
			if !ok {
				return nil, rerr("arg-type", "splice count "+TypeName(args[2]))
			}
			if c < 0 {
				return nil, rerr("index-oob", "splice count")
			}
			if int64(c) > int64(a.N) {
				count = a.N
			} else {
				count = int(c)
			}
		}
		if start+count > a.N {
			count = a.N - start
		}
		old := append([]V{}, a.Elems()...)
		deleted := append([]V{}, old[start:start+count]...)
		var items []V
		if n > 3 {
			items = args[3:]
		}
		res := append(append(append([]V{}, old[:start]...), items...), old[start+count:]...)
		a.S, a.Off, a.N = &store{e: res}, 0, len(res)
		return NewArray(deleted, false), nil
	case "string":
		return conv(func(v V) (V, bool, *RunErr) { s, ok := ToStr(v); return Str(s), ok, nil })
	case "int":
		return conv(func(v V) (V, bool, *RunErr) { i, ok := ToInt(v); return Int(i), ok, nil })
	case "float":
		return conv(func(v V) (V, bool, *RunErr) { f, ok := ToFloat(v); return Float(f), ok, nil })
	case "bool":
		if n != 1 {
			return nil, wrongArgs()
		}
		return Bool(!Falsy(args[0])), nil
	case "char":
		return conv(func(v V) (V, bool, *RunErr) {
			switch x := v.(type) {
			case Int:
				return Char(rune(x)), true, nil
			case Char:
				return x, true, nil
			}
			return nil, false, nil
		})
	case "bytes":
		return conv(func(v V) (V, bool, *RunErr) {
			switch x := v.(type) {
			case Int:
				if int64(x) > MaxBytesLen {
					return nil, false, rerr("limit", "bytes size limit")
				}
				if x < 0 {
					return nil, false, rerr("host-panic", "negative size")
				}
				return &Bytes{B: make([]byte, int(x))}, true, nil
			case Str:
				return &Bytes{B: []byte(string(x))}, true, nil
			case *Bytes:
				return x, true, nil
			}
			return nil, false, nil
		})
	case "time":
		return conv(func(v V) (V, bool, *RunErr) {
			switch x := v.(type) {
			case Int:
				return &Time{T: time.Unix(int64(x), 0)}, true, nil
			case *Time:
				return x, true, nil
			}
			return nil, false, nil
		})
	case "is_int":
		return is(func(v V) bool { _, ok := v.(Int); return ok })
	case "is_float":
		return is(func(v V) bool { _, ok := v.(Float); return ok })
	case "is_string":
		return is(func(v V) bool { _, ok := v.(Str); return ok })
	case "is_bool":
		return is(func(v V) bool { _, ok := v.(Bool); return ok })
	case "is_char":
		return is(func(v V) bool { _, ok := v.(Char); return ok })
	case "is_bytes":
		return is(func(v V) bool { _, ok := v.(*Bytes); return ok })
	case "is_array":
		return is(func(v V) bool { a, ok := v.(*Array); return ok && !a.Imm })
	case "is_immutable_array":
		return is(func(v V) bool { a, ok := v.(*Array); return ok && a.Imm })
	case "is_map":
		return is(func(v V) bool { a, ok := v.(*Map); return ok && !a.Imm })
	case "is_immutable_map":
		return is(func(v V) bool { a, ok := v.(*Map); return ok && a.Imm })
	case "is_iterable":
		return is(func(v V) bool {
			switch v.(type) {
			case *Array, *Map, Str, *Bytes, Undef:
				return true
			}
			return false
		})
	case "is_time":
		return is(func(v V) bool { _, ok := v.(*Time); return ok })
	case "is_error":
		return is(func(v V) bool { _, ok := v.(*Err); return ok })
	case "is_undefined":
		return is(func(v V) bool { _, ok := v.(Undef); return ok })
	case "is_function":
		return is(func(v V) bool { _, ok := v.(*Func); return ok })
	case "is_callable":
		return is(func(v V) bool {
			switch v.(type) {
			case *Func, *Builtin, *HostFn:
				return true
			}
			return false
		})
	case "type_name":
		if n != 1 {
			return nil, wrongArgs()
		}
		return Str(TypeName(args[0])), nil
	case "range":
		if n < 2 || n > 3 {
			return nil, wrongArgs()
		}
		var iv [3]int64
		iv[2] = 1
		for i, a := range args {
			x, ok := a.(Int)
			if !ok {
				return nil, rerr("arg-type", "range argument "+TypeName(a))
			}
			if i == 2 && x <= 0 {
				return nil, rerr("range-step", "step must be > 0")
			}
			iv[i] = int64(x)
		}
		for _, x := range iv {
			if x > 1<<40 || x < -(1<<40) {
				// near the int64 boundary the counter arithmetic overflows (C05 owns that input class)
				return nil, ErrUnsupported
			}
		}
		var out []V
		if iv[0] <= iv[1] {
			if (uint64(iv[1])-uint64(iv[0]))/uint64(iv[2]) > 1<<16 {
				return nil, ErrUnsupported // huge ranges are C05/C06 territory
			}
			for i := iv[0]; i < iv[1]; i += iv[2] {
				out = append(out, Int(i))
			}
		} else {
			if (uint64(iv[0])-uint64(iv[1]))/uint64(iv[2]) > 1<<16 {
				return nil, ErrUnsupported
			}
			for i := iv[0]; i > iv[1]; i -= iv[2] {
				out = append(out, Int(i))
			}
		}
		return NewArray(out, false), nil
	case "freeze":
		if n != 1 {
			return nil, wrongArgs()
		}
		return freeze(args[0], map[interface{}]V{}), nil
	case "format":
		return nil, ErrUnsupported
	}
	return nil, rerr("not-callable", "unknown builtin "+name)
}

// freeze: arrays/maps become immutable recursively with fresh storage;
// everything else (incl. errors, per docs/builtins.md) is returned as is.
// Already fully frozen values are returned unchanged.
func freeze(v V, memo map[interface{}]V) V {
	switch x := v.(type) {
	case *Array:
		if r, ok := memo[x]; ok {
			return r
		}
		if x.Imm && frozen(x, map[interface{}]bool{}) {
			return x
		}
		out := &Array{S: &store{e: make([]V, x.N)}, N: x.N, Imm: true}
		memo[x] = out
		for i, e := range x.Elems() {
			out.S.e[i] = freeze(e, memo)
		}
		return out
	case *Map:
		if r, ok := memo[x]; ok {
			return r
		}
		if x.Imm && frozen(x, map[interface{}]bool{}) {
			return x
		}
		out := &Map{M: map[string]V{}, Imm: true}
		memo[x] = out
		for k, e := range x.M {
			out.M[k] = freeze(e, memo)
		}
		return out
	}
	return v
}

func frozen(v V, seen map[interface{}]bool) bool {
	switch x := v.(type) {
	case *Array:
		if seen[x] {
			return true
		}
		seen[x] = true
		if !x.Imm {
			return false
		}
		for _, e := range x.Elems() {
			if !frozen(e, seen) {
				return false
			}
		}
	case *Map:
		if seen[x] {
			return true
		}
		seen[x] = true
		if !x.Imm {
			return false
		}
		for _, e := range x.M {
			if !frozen(e, seen) {
				return false
			}
		}
	}
	return true
}
