package ref

import (
	"fmt"

	"verif/engine/gen"
)

// Func is a closure (or a module body when Module is set).
type Func struct {
	Lit    *gen.FuncLit
	Env    *Env
	Module string // non-empty: this is the body of source module Module
	File   string // file whose statement ids the body uses ("(main)" or module name)
}

type cell struct{ v V }

// Env is one scope instance.
type Env struct {
	vars   map[string]*cell
	parent *Env
	hidden map[string]bool // global-level static scopes: names not (re)defined yet in this entry of the block
}

func newEnv(parent *Env) *Env { return &Env{vars: map[string]*cell{}, parent: parent} }

func (e *Env) lookup(name string) *cell {
	for s := e; s != nil; s = s.parent {
		if c, ok := s.vars[name]; ok && !s.hidden[name] {
			return c
		}
	}
	return nil
}

// Loc identifies a source location in terms of the generator's span map.
type Loc struct {
	File string // "(main)" or module name
	Stmt int    // statement id (printer-assigned)
	Call int    // call-site id, 0 if none
}

// Outcome of the reference run.
type Outcome struct {
	Class    string // ok | compile-error | runtime-error | budget | unsupported
	Err      string
	Kind     string       // RunErr kind for runtime errors
	Globals  map[string]V // user-visible globals (also at the failure point)
	Fail     Loc          // innermost executing statement at the failure
	Chain    []Loc        // active calls at the failure, innermost first (statement containing each call)
	Steps    int
	MaxDepth int
}

// Interp runs one program.
type Interp struct {
	prog     *gen.Program
	global   *Env
	steps    int
	Budget   int
	depth    int
	maxDepth int
	MaxDepth int                  // frames available to calls (MaxFrames-1 in the VM)
	inFunc   int                  // >0 while executing inside any function/module body
	blocks   map[interface{}]*Env // global-level block scopes are static (one variable per definition site)
	// location tracking
	file      string
	curStmt   int
	chain     []Loc
	failLoc   Loc
	failChain []Loc
	curFn     *Func
}

type ctl int

const (
	ctlNone ctl = iota
	ctlBreak
	ctlContinue
	ctlReturn
	ctlTail // self call in tail position: the frame is reused (value = []V arguments)
)

// Run executes prog with host inputs (already converted to reference values).
func Run(prog *gen.Program, inputs map[string]V, budget int) (out Outcome) {
	if ce := Check(prog, inputs); ce != "" {
		return Outcome{Class: "compile-error", Err: ce}
	}
	in := &Interp{prog: prog, Budget: budget, MaxDepth: 1023, blocks: map[interface{}]*Env{}, file: "(main)"}
	in.global = newEnv(nil)
	for k, v := range inputs {
		in.global.vars[k] = &cell{v}
	}
	defer func() {
		if r := recover(); r != nil {
			if r == errBudget {
				out = Outcome{Class: "budget"}
				return
			}
			if r == errOrderDependent {
				out = Outcome{Class: "unsupported"}
				return
			}
			panic(r)
		}
	}()
	_, _, err := in.block(prog.Main, in.global, false)
	out.Steps = in.steps
	out.MaxDepth = in.maxDepth
	out.Globals = map[string]V{}
	for k, c := range in.global.vars {
		out.Globals[k] = c.v
	}
	// global-level block variables are globals too, but the implementation exposes them under the
	// same name only once; the checks compare top-level names only
	if err != nil {
		if err == ErrUnsupported || err.Kind == "unsupported" {
			out.Class = "unsupported"
			return
		}
		out.Class, out.Err, out.Kind = "runtime-error", err.Error(), err.Kind
		out.Fail, out.Chain = in.failLoc, in.failChain
		return
	}
	out.Class = "ok"
	return
}

var errBudget = fmt.Errorf("budget")

func (in *Interp) tick() {
	in.steps++
	if in.steps > in.Budget {
		panic(errBudget)
	}
}

func (in *Interp) fail(e *RunErr) *RunErr {
	if in.failLoc.Stmt == 0 && in.failLoc.File == "" {
		in.failLoc = Loc{File: in.file, Stmt: in.curStmt}
		in.failChain = append([]Loc{}, in.chain...)
		// innermost first
		for i, j := 0, len(in.failChain)-1; i < j; i, j = i+1, j-1 {
			in.failChain[i], in.failChain[j] = in.failChain[j], in.failChain[i]
		}
	}
	return e
}

// block executes statements in a child scope of env (fresh, except that at
// global level every static block has exactly one scope instance).
func (in *Interp) block(ss []gen.Stmt, env *Env, newScope bool) (ctl, V, *RunErr) {
	e := env
	if newScope {
		e = in.scopeFor(ss, env)
	}
	for _, s := range ss {
		c, v, err := in.stmt(s, e)
		if err != nil || c != ctlNone {
			return c, v, err
		}
	}
	return ctlNone, nil, nil
}

func (in *Interp) scopeFor(key interface{}, parent *Env) *Env {
	if in.inFunc > 0 {
		return newEnv(parent)
	}
	// N: outside functions variables are global slots: one variable per definition site
	k := fmt.Sprintf("stmt:%p", key)
	if s, ok := key.([]gen.Stmt); ok {
		if len(s) == 0 {
			return newEnv(parent)
		}
		k = fmt.Sprintf("block:%p", s[0]) // a block is identified by its first statement (distinct from that statement's own scope)
	}
	if e, ok := in.blocks[k]; ok {
		// scoping is static: on re-entry the block's names are invisible again until their := executes
		// (their storage, which closures may have captured, is kept)
		e.hidden = map[string]bool{}
		for n := range e.vars {
			e.hidden[n] = true
		}
		return e
	}
	e := newEnv(parent)
	in.blocks[k] = e
	return e
}

func stmtID(s gen.Stmt) int {
	switch s := s.(type) {
	case *gen.Assign:
		return s.ID
	case *gen.IncDec:
		return s.ID
	case *gen.ExprStmt:
		return s.ID
	case *gen.If:
		return s.ID
	case *gen.For:
		return s.ID
	case *gen.ForIn:
		return s.ID
	case *gen.Break:
		return s.ID
	case *gen.Continue:
		return s.ID
	case *gen.Return:
		return s.ID
	case *gen.Block:
		return s.ID
	case *gen.Export:
		return s.ID
	}
	return 0
}

func (in *Interp) define(env *Env, name string, v V) {
	if c, ok := env.vars[name]; ok && in.inFunc == 0 {
		c.v = v // global slot re-initialised
		delete(env.hidden, name)
		return
	}
	env.vars[name] = &cell{v}
}

func (in *Interp) stmt(s gen.Stmt, env *Env) (ctl, V, *RunErr) {
	in.tick()
	saved := in.curStmt
	in.curStmt = stmtID(s)
	defer func() { in.curStmt = saved }()
	switch s := s.(type) {
	case *gen.ExprStmt:
		_, err := in.eval(s.X, env)
		return ctlNone, nil, err
	case *gen.Assign:
		return ctlNone, nil, in.assign(s.LHS, s.Op, s.RHS, env)
	case *gen.IncDec:
		op := "+="
		if s.Op == "--" {
			op = "-="
		}
		return ctlNone, nil, in.assign(s.X, op, gen.N("1"), env)
	case *gen.Block:
		if len(s.Body) == 0 {
			return ctlNone, nil, nil
		}
		return in.block(s.Body, env, true)
	case *gen.If:
		e := in.scopeFor(s, env)
		if s.Init != nil {
			if _, _, err := in.stmt(s.Init, e); err != nil {
				return ctlNone, nil, err
			}
			in.curStmt = s.ID
		}
		c, err := in.eval(s.Cond, e)
		if err != nil {
			return ctlNone, nil, err
		}
		if !Falsy(c) {
			return in.block(s.Then, e, true)
		}
		if s.Else != nil {
			if len(s.Else) == 1 {
				if ei, ok := s.Else[0].(*gen.If); ok {
					return in.stmt(ei, e)
				}
			}
			return in.block(s.Else, e, true)
		}
		return ctlNone, nil, nil
	case *gen.For:
		e := in.scopeFor(s, env)
		if s.Init != nil {
			if _, _, err := in.stmt(s.Init, e); err != nil {
				return ctlNone, nil, err
			}
		}
		for {
			in.tick()
			in.curStmt = s.ID
			if s.Cond != nil {
				c, err := in.eval(s.Cond, e)
				if err != nil {
					return ctlNone, nil, err
				}
				if Falsy(c) {
					break
				}
			}
			c, v, err := in.block(s.Body, e, true)
			if err != nil {
				return ctlNone, nil, err
			}
			if c == ctlBreak {
				break
			}
			if c == ctlReturn || c == ctlTail {
				return c, v, nil
			}
			if s.Post != nil {
				if _, _, err := in.stmt(s.Post, e); err != nil {
					return ctlNone, nil, err
				}
			}
		}
		return ctlNone, nil, nil
	case *gen.ForIn:
		e := in.scopeFor(s, env)
		x, err := in.eval(s.X, e)
		if err != nil {
			return ctlNone, nil, err
		}
		var keys, vals []V
		switch c := x.(type) {
		case *Array:
			for i, v := range c.Elems() {
				keys, vals = append(keys, Int(i)), append(vals, v)
			}
		case *Map:
			if len(c.M) > 1 {
				return ctlNone, nil, in.fail(ErrUnsupported) // order-dependent: outside the claim
			}
			for k, v := range c.M {
				keys, vals = append(keys, Str(k)), append(vals, v)
			}
		case Str:
			for i, r := range []rune(string(c)) {
				keys, vals = append(keys, Int(i)), append(vals, Char(r))
			}
		case *Bytes:
			for i, b := range c.B {
				keys, vals = append(keys, Int(i)), append(vals, Int(b))
			}
		case Undef:
		default:
			return ctlNone, nil, in.fail(rerr("not-iterable", TypeName(x)))
		}
		kn, vn := s.Key, s.Val
		if vn == "" {
			kn, vn = "_", s.Key
		}
		for i := range keys {
			in.tick()
			in.curStmt = s.ID
			// key/value variables are defined anew each iteration, in the loop's own scope
			if kn != "_" {
				in.define(e, kn, keys[i])
			}
			if vn != "_" {
				in.define(e, vn, vals[i])
			}
			c, v, err := in.block(s.Body, e, true)
			if err != nil {
				return ctlNone, nil, err
			}
			if c == ctlBreak {
				break
			}
			if c == ctlReturn || c == ctlTail {
				return c, v, nil
			}
		}
		return ctlNone, nil, nil
	case *gen.Break:
		return ctlBreak, nil, nil
	case *gen.Continue:
		return ctlContinue, nil, nil
	case *gen.Return:
		if s.X == nil {
			return ctlReturn, Undefined, nil
		}
		v, targs, err := in.evalTail(s.X, env)
		if err != nil {
			return ctlNone, nil, err
		}
		if targs != nil {
			return ctlTail, targs, nil
		}
		return ctlReturn, v, nil
	case *gen.Export:
		if in.curFn == nil || in.curFn.Module == "" {
			return ctlNone, nil, nil // ignored (not evaluated) in the main script
		}
		v, err := in.eval(s.X, env)
		if err != nil {
			return ctlNone, nil, err
		}
		return ctlReturn, immutableView(v), nil
	}
	return ctlNone, nil, in.fail(ErrUnsupported)
}

// immutableView is the immutable expression: a shallow immutable wrapper of
// an array/map (elements are not made immutable); other values unchanged.
func immutableView(v V) V {
	switch x := v.(type) {
	case *Array:
		if x.Imm {
			return x
		}
		return &Array{S: x.S, Off: x.Off, N: x.N, Imm: true}
	case *Map:
		if x.Imm {
			return x
		}
		return &Map{M: x.M, Imm: true}
	}
	return v
}

func baseIdent(e gen.Expr) (string, []gen.Expr) {
	switch t := e.(type) {
	case *gen.Ident:
		return t.Name, nil
	case *gen.Index:
		n, sel := baseIdent(t.X)
		return n, append(sel, t.I)
	case *gen.Sel:
		n, sel := baseIdent(t.X)
		return n, append(sel, gen.S(fmt.Sprintf("%q", t.Name)))
	case *gen.Paren:
		return baseIdent(t.X)
	}
	return "", nil
}

func (in *Interp) assign(lhs gen.Expr, op string, rhs gen.Expr, env *Env) *RunErr {
	name, sels := baseIdent(lhs)
	if op == ":=" {
		if fl, ok := rhs.(*gen.FuncLit); ok {
			// the name is visible inside the literal (recursion)
			in.define(env, name, Undefined)
			env.vars[name].v = &Func{Lit: fl, Env: env, File: in.file}
			return nil
		}
		v, err := in.eval(rhs, env)
		if err != nil {
			return err
		}
		in.define(env, name, v)
		return nil
	}
	c := env.lookup(name)
	if c == nil {
		return in.fail(rerr("internal", "unresolved "+name))
	}
	var val V
	if op == "=" {
		v, err := in.eval(rhs, env)
		if err != nil {
			return err
		}
		val = v
	} else {
		cur, err := in.eval(lhs, env)
		if err != nil {
			return err
		}
		r, err := in.eval(rhs, env)
		if err != nil {
			return err
		}
		v, err := Binary(op[:len(op)-1], cur, r)
		if err != nil {
			return in.fail(err)
		}
		val = v
	}
	if len(sels) == 0 {
		c.v = val
		return nil
	}
	// selectors are evaluated after the right-hand side (N: right to left)
	svals := make([]V, len(sels))
	for i := len(sels) - 1; i >= 0; i-- {
		v, err := in.eval(sels[i], env)
		if err != nil {
			return err
		}
		svals[i] = v
	}
	dst := c.v
	for i := 0; i < len(svals)-1; i++ {
		n, err := IndexGet(dst, svals[i])
		if err != nil {
			return in.fail(err)
		}
		dst = n
	}
	if err := IndexSet(dst, svals[len(svals)-1], val); err != nil {
		return in.fail(err)
	}
	return nil
}

func (in *Interp) eval(e gen.Expr, env *Env) (V, *RunErr) {
	switch e := e.(type) {
	case *gen.Lit:
		v, ok := litValue(e)
		if !ok {
			return nil, in.fail(ErrUnsupported)
		}
		return v, nil
	case *gen.Ident:
		if c := env.lookup(e.Name); c != nil {
			return c.v, nil
		}
		for _, b := range BuiltinNames {
			if b == e.Name {
				return &Builtin{Name: b}, nil
			}
		}
		return nil, in.fail(rerr("internal", "unresolved "+e.Name))
	case *gen.Paren:
		return in.eval(e.X, env)
	case *gen.Bin:
		l, err := in.eval(e.L, env)
		if err != nil {
			return nil, err
		}
		if e.Op == "&&" {
			if Falsy(l) {
				return l, nil
			}
			return in.eval(e.R, env)
		}
		if e.Op == "||" {
			if !Falsy(l) {
				return l, nil
			}
			return in.eval(e.R, env)
		}
		r, err := in.eval(e.R, env)
		if err != nil {
			return nil, err
		}
		v, err := Binary(e.Op, l, r)
		if err != nil {
			return nil, in.fail(err)
		}
		return v, nil
	case *gen.Un:
		x, err := in.eval(e.X, env)
		if err != nil {
			return nil, err
		}
		v, err := Unary(e.Op, x)
		if err != nil {
			return nil, in.fail(err)
		}
		return v, nil
	case *gen.Cond:
		c, err := in.eval(e.C, env)
		if err != nil {
			return nil, err
		}
		if !Falsy(c) {
			return in.eval(e.T, env)
		}
		return in.eval(e.F, env)
	case *gen.ArrayLit:
		out := make([]V, 0, len(e.Elems))
		for _, x := range e.Elems {
			v, err := in.eval(x, env)
			if err != nil {
				return nil, err
			}
			out = append(out, v)
		}
		return &Array{S: &store{e: out}, N: len(out)}, nil
	case *gen.MapLit:
		m := &Map{M: map[string]V{}}
		for i, k := range e.Keys {
			v, err := in.eval(e.Vals[i], env)
			if err != nil {
				return nil, err
			}
			m.M[unquoteKey(k)] = v
		}
		return m, nil
	case *gen.Index:
		x, err := in.eval(e.X, env)
		if err != nil {
			return nil, err
		}
		i, err := in.eval(e.I, env)
		if err != nil {
			return nil, err
		}
		v, err := IndexGet(x, i)
		if err != nil {
			return nil, in.fail(err)
		}
		return v, nil
	case *gen.Sel:
		x, err := in.eval(e.X, env)
		if err != nil {
			return nil, err
		}
		v, err := IndexGet(x, Str(e.Name))
		if err != nil {
			return nil, in.fail(err)
		}
		return v, nil
	case *gen.Slice:
		x, err := in.eval(e.X, env)
		if err != nil {
			return nil, err
		}
		var lo, hi V
		if e.Lo != nil {
			if lo, err = in.eval(e.Lo, env); err != nil {
				return nil, err
			}
		}
		if e.Hi != nil {
			if hi, err = in.eval(e.Hi, env); err != nil {
				return nil, err
			}
		}
		v, err := SliceOf(x, lo, hi)
		if err != nil {
			return nil, in.fail(err)
		}
		return v, nil
	case *gen.FuncLit:
		return &Func{Lit: e, Env: env, File: in.file}, nil
	case *gen.Immutable:
		x, err := in.eval(e.X, env)
		if err != nil {
			return nil, err
		}
		return immutableView(x), nil
	case *gen.ErrorE:
		x, err := in.eval(e.X, env)
		if err != nil {
			return nil, err
		}
		return &Err{V: x}, nil
	case *gen.Import:
		body, ok := in.prog.Modules[e.Name]
		if !ok {
			return nil, in.fail(ErrUnsupported)
		}
		// each evaluation of an import expression runs the module body afresh
		mod := &Func{Lit: &gen.FuncLit{Body: body}, Env: newEnv(nil), Module: e.Name, File: e.Name}
		return in.call(mod, nil, 0)
	case *gen.Call:
		f, err := in.eval(e.F, env)
		if err != nil {
			return nil, err
		}
		return in.finishCall(e, f, env)
	}
	return nil, in.fail(ErrUnsupported)
}

func (in *Interp) finishCall(e *gen.Call, f V, env *Env) (V, *RunErr) {
	{
		args := make([]V, 0, len(e.Args))
		for _, a := range e.Args {
			v, err := in.eval(a, env)
			if err != nil {
				return nil, err
			}
			args = append(args, v)
		}
		switch f.(type) {
		case *Func, *Builtin, *HostFn:
		default:
			return nil, in.fail(rerr("not-callable", TypeName(f)))
		}
		if e.Spread {
			last, ok := args[len(args)-1].(*Array)
			if !ok {
				return nil, in.fail(rerr("spread", "not an array: "+TypeName(args[len(args)-1])))
			}
			args = append(args[:len(args)-1:len(args)-1], last.Elems()...)
		}
		return in.call(f, args, e.ID)
	}
}

// evalTail evaluates the operand of a return statement. When it is a call of
// the running function itself in tail position (directly, or as the right
// operand of && / ||) it returns the evaluated arguments instead of calling.
func (in *Interp) evalTail(e gen.Expr, env *Env) (V, []V, *RunErr) {
	switch e := e.(type) {
	case *gen.Paren:
		return in.evalTail(e.X, env)
	case *gen.Bin:
		if e.Op == "&&" || e.Op == "||" {
			l, err := in.eval(e.L, env)
			if err != nil {
				return nil, nil, err
			}
			if (e.Op == "&&") == Falsy(l) {
				return l, nil, nil
			}
			return in.evalTail(e.R, env)
		}
	case *gen.Call:
		f, err := in.eval(e.F, env)
		if err != nil {
			return nil, nil, err
		}
		fn, isFn := f.(*Func)
		if !isFn || fn != in.curFn || fn.Module != "" {
			v, err := in.finishCall(e, f, env)
			return v, nil, err
		}
		args := make([]V, 0, len(e.Args))
		for _, a := range e.Args {
			v, err := in.eval(a, env)
			if err != nil {
				return nil, nil, err
			}
			args = append(args, v)
		}
		if e.Spread {
			last, ok := args[len(args)-1].(*Array)
			if !ok {
				return nil, nil, in.fail(rerr("spread", "not an array: "+TypeName(args[len(args)-1])))
			}
			args = append(args[:len(args)-1:len(args)-1], last.Elems()...)
		}
		if args == nil {
			args = []V{}
		}
		return nil, args, nil
	}
	v, err := in.eval(e, env)
	return v, nil, err
}

func (in *Interp) call(f V, args []V, callID int) (V, *RunErr) {
	in.tick()
	switch fn := f.(type) {
	case *Builtin:
		v, err := CallBuiltin(fn.Name, args)
		if err != nil {
			return nil, in.fail(err)
		}
		return v, nil
	case *HostFn:
		v, e := fn.Fn(args)
		if e != nil {
			return nil, in.fail(rerr("host-error", e.Error()))
		}
		return v, nil
	case *Func:
		lit := fn.Lit
		np := len(lit.Params)
		if lit.VarArgs {
			if len(args) < np-1 {
				return nil, in.fail(rerr("wrong-args", fmt.Sprintf("want>=%d got=%d", np-1, len(args))))
			}
			rest := NewArray(args[np-1:], false)
			args = append(append([]V{}, args[:np-1]...), rest)
		} else if len(args) != np {
			return nil, in.fail(rerr("wrong-args", fmt.Sprintf("want=%d got=%d", np, len(args))))
		}
		if in.depth >= in.MaxDepth {
			return nil, in.fail(rerr("stack-overflow", "frame limit"))
		}
		in.depth++
		if in.depth > in.maxDepth {
			in.maxDepth = in.depth
		}
		in.inFunc++
		in.chain = append(in.chain, Loc{File: in.file, Stmt: in.curStmt, Call: callID})
		savedFile, savedFn, savedStmt := in.file, in.curFn, in.curStmt
		in.file, in.curFn = fn.File, fn
		defer func() {
			in.depth--
			in.inFunc--
			in.chain = in.chain[:len(in.chain)-1]
			in.file, in.curFn, in.curStmt = savedFile, savedFn, savedStmt
		}()
		for {
			penv := newEnv(fn.Env)
			for i, p := range lit.Params {
				penv.vars[p] = &cell{args[i]}
			}
			c, v, err := in.block(lit.Body, penv, true)
			if err != nil {
				return nil, err
			}
			if c == ctlTail {
				// P: a self call in tail position runs in constant frame space
				in.tick()
				args = v.([]V)
				if lit.VarArgs {
					if len(args) < np-1 {
						return nil, in.fail(rerr("wrong-args", fmt.Sprintf("want>=%d got=%d", np-1, len(args))))
					}
					rest := NewArray(args[np-1:], false)
					args = append(append([]V{}, args[:np-1]...), rest)
				} else if len(args) != np {
					return nil, in.fail(rerr("wrong-args", fmt.Sprintf("want=%d got=%d", np, len(args))))
				}
				continue
			}
			if c == ctlReturn {
				return v, nil
			}
			return Undefined, nil
		}
	}
	return nil, in.fail(rerr("not-callable", TypeName(f)))
}
