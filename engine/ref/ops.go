package ref

import (
	"bytes"
	"math"
	"strconv"
	"strings"
	"time"
)

// RunErr is a run-time failure of the reference semantics.
type RunErr struct {
	Kind string
	Msg  string
}

func (e *RunErr) Error() string { return e.Kind + ": " + e.Msg }

func rerr(kind, msg string) *RunErr { return &RunErr{kind, msg} }

// maxElems bounds container sizes in the reference: programs that grow data exponentially are skipped
// (reported as unsupported), not compared.
const maxElems = 1 << 16

// errOrderDependent is panicked when a result would depend on map iteration order (recovered by Run: "unsupported").
var errOrderDependent = &RunErr{"unsupported", "depends on map iteration order"}

// Falsy is the documented truthiness table (docs/runtime-types.md).
func Falsy(v V) bool {
	switch x := v.(type) {
	case Int:
		return x == 0
	case Str:
		return len(x) == 0
	case Float:
		return math.IsNaN(float64(x))
	case Bool:
		return !bool(x)
	case Char:
		return x == 0
	case *Bytes:
		return len(x.B) == 0
	case *Array:
		return x.N == 0
	case *Map:
		return len(x.M) == 0
	case *Time:
		return x.T.IsZero()
	case *Err, Undef:
		return true
	}
	return false // N: functions are truthy
}

// Equals is the == relation (docs/operators.md: defined per type; never fails).
func Equals(a, b V) bool {
	switch x := a.(type) {
	case Int:
		switch y := b.(type) {
		case Int:
			return x == y
		case Float:
			return float64(x) == float64(y)
		}
	case Float:
		switch y := b.(type) {
		case Float:
			return x == y
		case Int:
			return float64(x) == float64(y)
		}
	case Bool:
		y, ok := b.(Bool)
		return ok && x == y
	case Char:
		y, ok := b.(Char)
		return ok && x == y
	case Str:
		y, ok := b.(Str)
		return ok && x == y
	case *Bytes:
		y, ok := b.(*Bytes)
		return ok && bytes.Equal(x.B, y.B)
	case *Time:
		y, ok := b.(*Time)
		return ok && x.T.Equal(y.T)
	case Undef:
		_, ok := b.(Undef)
		return ok
	case *Array:
		y, ok := b.(*Array)
		if !ok || x.N != y.N {
			return false
		}
		xe, ye := x.Elems(), y.Elems()
		for i := range xe {
			if !Equals(xe[i], ye[i]) {
				return false
			}
		}
		return true
	case *Map:
		y, ok := b.(*Map)
		if !ok || len(x.M) != len(y.M) {
			return false
		}
		for k, v := range x.M {
			w, has := y.M[k]
			if !has || !Equals(v, w) {
				return false
			}
		}
		return true
	case *Err:
		y, ok := b.(*Err)
		return ok && x == y // N: identity (pinned by the repository's TestError_Equals)
	}
	return false // N: functions never compare equal
}

// Text is the default text of a value (what string concatenation appends).
// N: exact formats are pinned (docs say only "string-converted").
func Text(v V) string {
	switch x := v.(type) {
	case Int:
		return strconv.FormatInt(int64(x), 10)
	case Float:
		return strconv.FormatFloat(float64(x), 'f', -1, 64)
	case Bool:
		return strconv.FormatBool(bool(x))
	case Char:
		return string(rune(x))
	case Str:
		return strconv.Quote(string(x))
	case *Bytes:
		return string(x.B)
	case *Time:
		return x.T.String()
	case Undef:
		return "<undefined>"
	case *Err:
		return "error: " + Text(x.V)
	case *Array:
		parts := make([]string, 0, x.N)
		for _, e := range x.Elems() {
			parts = append(parts, Text(e))
		}
		return "[" + strings.Join(parts, ", ") + "]"
	case *Map:
		if len(x.M) > 1 {
			// the text of a map with several keys depends on Go map iteration order: outside the claim
			panic(errOrderDependent)
		}
		parts := []string{}
		for k, e := range x.M {
			parts = append(parts, k+": "+Text(e))
		}
		return "{" + strings.Join(parts, ", ") + "}"
	case *Func:
		return "<compiled-function>"
	case *Builtin:
		return "<builtin-function>"
	case *HostFn:
		return "<user-function>"
	}
	return "?"
}

// ToStr is the string conversion of the conversion table (undefined: none).
func ToStr(v V) (string, bool) {
	switch x := v.(type) {
	case Undef:
		return "", false
	case Str:
		return string(x), true
	}
	return Text(v), true
}

// ToInt is the int conversion of the conversion table.
func ToInt(v V) (int64, bool) {
	switch x := v.(type) {
	case Int:
		return int64(x), true
	case Float:
		return int64(float64(x)), true
	case Char:
		return int64(x), true
	case Bool:
		if x {
			return 1, true
		}
		return 0, true
	case Str:
		n, err := strconv.ParseInt(string(x), 10, 64)
		if err == nil {
			return n, true
		}
	}
	return 0, false
}

// ToFloat is the float conversion of the conversion table.
func ToFloat(v V) (float64, bool) {
	switch x := v.(type) {
	case Int:
		return float64(x), true
	case Float:
		return float64(x), true
	case Str:
		f, err := strconv.ParseFloat(string(x), 64)
		if err == nil {
			return f, true
		}
	}
	return 0, false
}

func cmp(op string, c int) (V, bool) {
	switch op {
	case "<":
		return Bool(c < 0), true
	case "<=":
		return Bool(c <= 0), true
	case ">":
		return Bool(c > 0), true
	case ">=":
		return Bool(c >= 0), true
	}
	return nil, false
}

func fcmp(op string, a, b float64) (V, bool) {
	switch op {
	case "<":
		return Bool(a < b), true
	case "<=":
		return Bool(a <= b), true
	case ">":
		return Bool(a > b), true
	case ">=":
		return Bool(a >= b), true
	}
	return nil, false
}

func icmp(op string, a, b int64) (V, bool) {
	switch {
	case a < b:
		return cmp(op, -1)
	case a > b:
		return cmp(op, 1)
	}
	return cmp(op, 0)
}

// Binary evaluates a binary operator other than && and ||.
func Binary(op string, a, b V) (V, *RunErr) {
	if op == "==" {
		return Bool(Equals(a, b)), nil
	}
	if op == "!=" {
		return Bool(!Equals(a, b)), nil
	}
	invalid := rerr("invalid-op", TypeName(a)+" "+op+" "+TypeName(b))
	switch x := a.(type) {
	case Int:
		switch y := b.(type) {
		case Int:
			switch op {
			case "+":
				return x + y, nil
			case "-":
				return x - y, nil
			case "*":
				return x * y, nil
			case "/":
				if y == 0 {
					return nil, rerr("div-zero", "integer divide by zero")
				}
				return x / y, nil
			case "%":
				if y == 0 {
					return nil, rerr("div-zero", "integer divide by zero")
				}
				return x % y, nil
			case "&":
				return x & y, nil
			case "|":
				return x | y, nil
			case "^":
				return x ^ y, nil
			case "&^":
				return x &^ y, nil
			case "<<":
				return x << uint64(y), nil // N: count taken as unsigned
			case ">>":
				return x >> uint64(y), nil
			}
			if r, ok := icmp(op, int64(x), int64(y)); ok {
				return r, nil
			}
		case Float:
			fa, fb := float64(x), float64(y)
			switch op {
			case "+":
				return Float(fa + fb), nil
			case "-":
				return Float(fa - fb), nil
			case "*":
				return Float(fa * fb), nil
			case "/":
				return Float(fa / fb), nil
			}
			if r, ok := fcmp(op, fa, fb); ok {
				return r, nil
			}
		case Char:
			switch op {
			case "+":
				return Char(rune(x) + rune(y)), nil
			case "-":
				return Char(rune(x) - rune(y)), nil
			}
			if r, ok := icmp(op, int64(x), int64(y)); ok {
				return r, nil
			}
		}
	case Float:
		var fb float64
		switch y := b.(type) {
		case Float:
			fb = float64(y)
		case Int:
			fb = float64(y)
		default:
			return nil, invalid
		}
		fa := float64(x)
		switch op {
		case "+":
			return Float(fa + fb), nil
		case "-":
			return Float(fa - fb), nil
		case "*":
			return Float(fa * fb), nil
		case "/":
			return Float(fa / fb), nil
		}
		if r, ok := fcmp(op, fa, fb); ok {
			return r, nil
		}
	case Char:
		switch y := b.(type) {
		case Char:
			switch op {
			case "+":
				return x + y, nil
			case "-":
				return x - y, nil
			}
			if r, ok := icmp(op, int64(x), int64(y)); ok {
				return r, nil
			}
		case Int:
			switch op {
			case "+":
				return Char(rune(x) + rune(y)), nil
			case "-":
				return Char(rune(x) - rune(y)), nil
			}
			if r, ok := icmp(op, int64(x), int64(y)); ok {
				return r, nil
			}
		}
	case Str:
		if op == "+" {
			if y, ok := b.(Str); ok {
				if len(x)+len(y) > maxElems*16 {
					panic(errOrderDependent)
				}
				return x + y, nil
			}
			t := Text(b)
			if len(x)+len(t) > maxElems*16 {
				panic(errOrderDependent)
			}
			return x + Str(t), nil
		}
		if y, ok := b.(Str); ok {
			if r, ok := cmp(op, strings.Compare(string(x), string(y))); ok {
				return r, nil
			}
		}
	case *Bytes:
		if y, ok := b.(*Bytes); ok && op == "+" {
			return &Bytes{B: append(append([]byte{}, x.B...), y.B...)}, nil
		}
	case *Time:
		switch y := b.(type) {
		case Int:
			switch op {
			case "+":
				return &Time{T: x.T.Add(time.Duration(y))}, nil
			case "-":
				return &Time{T: x.T.Add(time.Duration(-y))}, nil
			}
		case *Time:
			switch op {
			case "-":
				return Int(x.T.Sub(y.T)), nil
			case "<":
				return Bool(x.T.Before(y.T)), nil
			case ">":
				return Bool(x.T.After(y.T)), nil
			case "<=":
				return Bool(x.T.Equal(y.T) || x.T.Before(y.T)), nil
			case ">=":
				return Bool(x.T.Equal(y.T) || x.T.After(y.T)), nil
			}
		}
	case *Array:
		// P: + yields a fresh array. N: both operands must have the same mutability; the result is mutable.
		if y, ok := b.(*Array); ok && op == "+" && x.Imm == y.Imm {
			if x.N+y.N > maxElems {
				panic(errOrderDependent) // runaway growth (e.g. a += a in a loop): outside the compared domain
			}
			return NewArray(append(append([]V{}, x.Elems()...), y.Elems()...), false), nil
		}
	}
	return nil, invalid
}

// Unary evaluates a unary operator.
func Unary(op string, a V) (V, *RunErr) {
	switch op {
	case "!":
		return Bool(Falsy(a)), nil
	case "+":
		return a, nil // N: identity on every type
	case "-":
		switch x := a.(type) {
		case Int:
			return -x, nil
		case Float:
			return -x, nil
		}
	case "^":
		if x, ok := a.(Int); ok {
			return ^x, nil
		}
	}
	return nil, rerr("invalid-op", op+TypeName(a))
}

// IndexGet is x[i] / x.k.
func IndexGet(x, idx V) (V, *RunErr) {
	switch c := x.(type) {
	case *Array:
		i, ok := idx.(Int)
		if !ok {
			return nil, rerr("index-type", TypeName(idx)) // N: read index must be an int
		}
		if i < 0 || int64(i) >= int64(c.N) {
			return Undefined, nil
		}
		return c.Elems()[i], nil
	case *Map:
		k, ok := ToStr(idx)
		if !ok {
			return nil, rerr("index-type", TypeName(idx))
		}
		if v, has := c.M[k]; has {
			return v, nil
		}
		return Undefined, nil
	case Str:
		i, ok := idx.(Int)
		if !ok {
			return nil, rerr("index-type", TypeName(idx))
		}
		rs := []rune(string(c)) // N: strings are indexed by rune
		if i < 0 || int64(i) >= int64(len(rs)) {
			return Undefined, nil
		}
		return Char(rs[i]), nil
	case *Bytes:
		i, ok := idx.(Int)
		if !ok {
			return nil, rerr("index-type", TypeName(idx))
		}
		if i < 0 || int64(i) >= int64(len(c.B)) {
			return Undefined, nil
		}
		return Int(c.B[i]), nil
	case *Err:
		if k, _ := ToStr(idx); k == "value" {
			return c.V, nil
		}
		return nil, rerr("index-on-error", "only .value")
	case Undef:
		return Undefined, nil
	}
	return nil, rerr("not-indexable", TypeName(x))
}

// IndexSet is x[i] = v.
func IndexSet(x, idx, v V) *RunErr {
	switch c := x.(type) {
	case *Array:
		if c.Imm {
			return rerr("not-assignable", "immutable-array")
		}
		i, ok := ToInt(idx) // N: write index coerced with the int conversion table
		if !ok {
			return rerr("index-type", TypeName(idx))
		}
		if i < 0 || i >= int64(c.N) {
			return rerr("index-oob", "index out of bounds")
		}
		c.Elems()[i] = v
		return nil
	case *Map:
		if c.Imm {
			return rerr("not-assignable", "immutable-map")
		}
		k, ok := ToStr(idx)
		if !ok {
			return rerr("index-type", TypeName(idx))
		}
		c.M[k] = v
		return nil
	}
	return rerr("not-assignable", TypeName(x))
}

// SliceOf is x[lo:hi]; lo/hi nil when omitted. Undefined bounds count as omitted.
func SliceOf(x, lo, hi V) (V, *RunErr) {
	var l int64
	if lo != nil {
		if _, u := lo.(Undef); !u {
			li, ok := lo.(Int)
			if !ok {
				return nil, rerr("slice", "low index type "+TypeName(lo))
			}
			l = int64(li)
		}
	}
	var n int64
	switch c := x.(type) {
	case *Array:
		n = int64(c.N)
	case Str:
		n = int64(len(c)) // N: strings are sliced by byte
	case *Bytes:
		n = int64(len(c.B))
	default:
		return nil, rerr("not-indexable", TypeName(x))
	}
	h := n
	if hi != nil {
		if _, u := hi.(Undef); !u {
			hi2, ok := hi.(Int)
			if !ok {
				return nil, rerr("slice", "high index type "+TypeName(hi))
			}
			h = int64(hi2)
		}
	}
	if l > h {
		return nil, rerr("slice", "low > high")
	}
	clamp := func(i int64) int64 {
		if i < 0 {
			return 0
		}
		if i > n {
			return n
		}
		return i
	}
	l, h = clamp(l), clamp(h)
	switch c := x.(type) {
	case *Array:
		if c.Imm {
			// P: slicing an immutable array must not give write access to it: fresh storage
			return NewArray(c.Elems()[l:h], false), nil
		}
		// documented Go-like behaviour: the slice shares elements with the array
		return &Array{S: c.S, Off: c.Off + int(l), N: int(h - l)}, nil
	case Str:
		return c[l:h], nil
	case *Bytes:
		return &Bytes{B: append([]byte{}, c.B[l:h]...)}, nil
	}
	return nil, rerr("not-indexable", TypeName(x))
}

// Copy is the deep copy of copy(); immutable values yield mutable copies (documented).
func Copy(v V) V {
	switch x := v.(type) {
	case *Array:
		out := make([]V, x.N)
		for i, e := range x.Elems() {
			out[i] = Copy(e)
		}
		return &Array{S: &store{e: out}, N: len(out)}
	case *Map:
		m := &Map{M: map[string]V{}}
		for k, e := range x.M {
			m.M[k] = Copy(e)
		}
		return m
	case *Bytes:
		return &Bytes{B: append([]byte{}, x.B...)}
	case *Err:
		return &Err{V: Copy(x.V)}
	case *Time:
		return &Time{T: x.T}
	}
	return v
}
