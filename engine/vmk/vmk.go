//go:build verif

// Package vmk tracks the VMs created during one controlled execution and
// renders their complete state (registers, frames, operand stack) for the
// explorer's global state key.
package vmk

import (
	"fmt"
	"strings"
	"unsafe"

	"github.com/d5/tengo/v2"
	"verif/engine/val"
	"verif/engine/vsched"
)

// VM is one tracked VM.
type VM struct {
	V          *tengo.VM
	Thread     int // scheduler thread that executes it (-1 until its first instruction)
	Steps      int
	AfterAbort int // instructions dispatched while the abort flag was already set
	lastPoint  int // scheduler step count of the executing thread at the previous instruction
	sincePoint int // instructions dispatched since the thread's last scheduling point
}

// MaxStepsBetweenPoints bounds how many instructions a VM may dispatch without reaching a scheduling
// point. Every dispatched instruction is preceded by the atomic load of the abort flag (a scheduling
// point), so exceeding the bound means the abort flag is no longer polled on that path.
const MaxStepsBetweenPoints = 100000

// Tracker installs itself as tengo.VerifNewVM for the lifetime of one world.
type Tracker struct {
	S       *vsched.Sched
	VMs     []*VM
	fnNames map[uintptr]string
}

// New creates a tracker and hooks VM creation.
func New(s *vsched.Sched) *Tracker {
	t := &Tracker{S: s, fnNames: map[uintptr]string{}}
	tengo.VerifNewVM = func(v *tengo.VM) {
		info := &VM{V: v, Thread: -1}
		t.VMs = append(t.VMs, info)
		v.VerifSetProbe(func(v *tengo.VM) {
			info.Steps++
			if info.Thread < 0 {
				info.Thread = s.Running()
			}
			if v.VerifAborting() != 0 {
				info.AfterAbort++
			}
			if n := s.ThreadSteps(info.Thread); n != info.lastPoint {
				info.lastPoint, info.sincePoint = n, 0
			}
			info.sincePoint++
			if info.sincePoint > MaxStepsBetweenPoints {
				panic(fmt.Sprintf("VM dispatched more than %d instructions without polling the abort flag (no scheduling point reached)", MaxStepsBetweenPoints))
			}
		})
	}
	return t
}

// NameFunctions registers stable names for the functions of a bytecode (shared by clones).
func (t *Tracker) NameFunctions(prefix string, bc *tengo.Bytecode) {
	if len(bc.MainFunction.Instructions) > 0 {
		t.fnNames[uintptr(unsafe.Pointer(&bc.MainFunction.Instructions[0]))] = prefix + "main"
	}
	for i, k := range bc.Constants {
		if f, ok := k.(*tengo.CompiledFunction); ok && len(f.Instructions) > 0 {
			t.fnNames[uintptr(unsafe.Pointer(&f.Instructions[0]))] = fmt.Sprintf("%sk%d", prefix, i)
		}
	}
}

func (t *Tracker) name(f *tengo.CompiledFunction) string {
	if f == nil || len(f.Instructions) == 0 {
		return "?"
	}
	if n, ok := t.fnNames[uintptr(unsafe.Pointer(&f.Instructions[0]))]; ok {
		return n
	}
	return "anon"
}

// Key renders one VM; finished VMs (their thread ended) collapse to "vm-done" plus their abort flag.
func (t *Tracker) Key(info *VM) string {
	if info.Thread >= 0 && t.S.ThreadDone(info.Thread) {
		return fmt.Sprintf("vm-done ab=%d", info.V.VerifAborting()) // the flag matters once VM objects are recycled
	}
	v := info.V
	fn, ip, sp, bp, fi := v.VerifState()
	var sb strings.Builder
	fmt.Fprintf(&sb, "fn=%s ip=%d sp=%d bp=%d fi=%d ab=%d aa=%d;", t.name(fn), ip, sp, bp, fi, v.VerifAborting(), info.AfterAbort)
	for i := 0; i < fi; i++ {
		f, fip, fbp := v.VerifFrame(i)
		fmt.Fprintf(&sb, "F%d:%s/%d/%d;", i, t.name(f), fip, fbp)
	}
	for _, o := range v.VerifStack() {
		if o == nil {
			sb.WriteString("nil,")
			continue
		}
		sb.WriteString(val.StateKey(o) + ",")
	}
	return sb.String()
}

// Keys renders all VMs in creation order.
func (t *Tracker) Keys() string {
	var sb strings.Builder
	for _, vm := range t.VMs {
		sb.WriteString(t.Key(vm) + "|")
	}
	return sb.String()
}

// Globals renders the globals of a compiled object by name.
func Globals(c *tengo.Compiled) string {
	idx := c.VerifGlobalIndexes()
	gl := c.VerifGlobals()
	names := make([]string, 0, len(idx))
	for n := range idx {
		names = append(names, n)
	}
	sortStrings(names)
	var sb strings.Builder
	for _, n := range names {
		o := gl[idx[n]]
		if o == nil {
			sb.WriteString(n + "=nil;")
			continue
		}
		sb.WriteString(n + "=" + val.StateKey(o) + ";")
	}
	return sb.String()
}

func sortStrings(s []string) {
	for i := 1; i < len(s); i++ {
		for j := i; j > 0 && s[j] < s[j-1]; j-- {
			s[j], s[j-1] = s[j-1], s[j]
		}
	}
}
