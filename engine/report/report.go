// Package report is the shared reporting layer of every check: tier/seed
// handling, violation grouping by signature, known-finding matching, replay
// artefacts, evidence files and the process exit code.
//
// Contract (see MANIFEST.json / the brief):
//   - exit 0 if the property held on everything explored (known findings are
//     printed as "KNOWN-FINDING: property=<id> <what>" and do not count);
//   - exit 1 with "VIOLATION property=<id> replay=<path>" per new signature.
//   - internal harness faults print "INTERNAL: ..." , mark the evidence
//     exhaustive:false and never produce a VIOLATION line.
package report

import (
	"bufio"
	"crypto/sha1"
	"encoding/json"
	"fmt"
	"os"
	"path/filepath"
	"runtime"
	"sort"
	"strconv"
	"strings"
	"sync"
	"time"
)

// Root is the /verif directory (overridable for tests of the framework).
var Root = func() string {
	if r := os.Getenv("VERIF_ROOT"); r != "" {
		return r
	}
	return "/verif"
}()

// Run accumulates the result of one check run.
type Run struct {
	Prop  string
	Tier  string
	Seed  int64
	start time.Time

	mu        sync.Mutex
	groups    map[string]*group // signature -> group
	order     []string
	known     map[string]string // signature -> text (finding: lines of this property)
	internal  []string
	notes     []string
	cov       map[string]interface{}
	samples   []interface{}
	outcomes  map[string]int64
	counters  map[string]int64
	assume    []string
	exhaust   bool
	exhaustNo []string
}

type group struct {
	Sig      string        `json:"signature"`
	What     string        `json:"what"`
	Count    int64         `json:"count"`
	Examples []interface{} `json:"examples"`
}

// Replay is the on-disk form of a violation artefact.
type Replay struct {
	Property  string        `json:"property"`
	Signature string        `json:"signature"`
	What      string        `json:"what"`
	Count     int64         `json:"count"`
	Cases     []interface{} `json:"cases"`
	HowTo     string        `json:"how_to_replay"`
}

// New starts a run for property prop. Tier comes from the first CLI argument
// ("quick"/"thorough") or VERIF_TIER; the seed from VERIF_SEED.
func New(prop string) *Run {
	tier := os.Getenv("VERIF_TIER")
	for _, a := range os.Args[1:] {
		if a == "quick" || a == "thorough" {
			tier = a
		}
	}
	if tier != "thorough" {
		tier = "quick"
	}
	seed, _ := strconv.ParseInt(os.Getenv("VERIF_SEED"), 10, 64)
	r := &Run{Prop: prop, Tier: tier, Seed: seed, start: time.Now(),
		groups: map[string]*group{}, known: map[string]string{},
		cov: map[string]interface{}{}, outcomes: map[string]int64{},
		counters: map[string]int64{}, exhaust: true}
	r.loadKnown()
	return r
}

// Thorough reports whether the thorough tier was requested.
func (r *Run) Thorough() bool { return r.Tier == "thorough" }

// Pick returns q for quick and t for thorough.
func (r *Run) Pick(q, t int) int {
	if r.Thorough() {
		return t
	}
	return q
}

func (r *Run) loadKnown() {
	f, err := os.Open(filepath.Join(Root, "KNOWN_FINDINGS.txt"))
	if err != nil {
		return
	}
	defer f.Close()
	sc := bufio.NewScanner(f)
	sc.Buffer(make([]byte, 1<<20), 1<<20)
	for sc.Scan() {
		line := strings.TrimSpace(sc.Text())
		if !strings.HasPrefix(line, "finding:") {
			continue // "fixed:" lines and comments suppress nothing
		}
		rest := strings.TrimSpace(strings.TrimPrefix(line, "finding:"))
		fields := strings.Fields(rest)
		if len(fields) < 2 || fields[0] != "property="+r.Prop ||
			!strings.HasPrefix(fields[1], "sig=") {
			continue
		}
		sig := strings.TrimPrefix(fields[1], "sig=")
		r.known[sig] = strings.TrimSpace(strings.Join(fields[2:], " "))
	}
}

// Violation records one failing case under a signature. The signature names
// the specific failing input class; it is what KNOWN_FINDINGS.txt matches on.
// Signatures must not contain whitespace.
func (r *Run) Violation(sig, what string, example interface{}) {
	sig = strings.Join(strings.Fields(sig), "_")
	r.mu.Lock()
	defer r.mu.Unlock()
	g := r.groups[sig]
	if g == nil {
		g = &group{Sig: sig, What: what}
		r.groups[sig] = g
		r.order = append(r.order, sig)
	}
	g.Count++
	if len(g.Examples) < 5 {
		g.Examples = append(g.Examples, example)
	}
}

// Internal records a harness fault: never a violation, evidence not exhaustive.
func (r *Run) Internal(format string, a ...interface{}) {
	msg := fmt.Sprintf(format, a...)
	r.mu.Lock()
	defer r.mu.Unlock()
	if len(r.internal) < 50 {
		r.internal = append(r.internal, msg)
	}
	r.exhaust = false
	r.exhaustNo = append(r.exhaustNo, "internal: "+msg)
}

// NotExhaustive marks that a cap/deadline was hit.
func (r *Run) NotExhaustive(reason string) {
	r.mu.Lock()
	defer r.mu.Unlock()
	r.exhaust = false
	if len(r.exhaustNo) < 20 {
		r.exhaustNo = append(r.exhaustNo, reason)
	}
}

// Outcome counts one observed outcome class (vacuity guard: distinct outcomes).
func (r *Run) Outcome(class string) {
	r.mu.Lock()
	r.outcomes[class]++
	r.mu.Unlock()
}

// Count adds n to a named counter reported in coverage.
func (r *Run) Count(name string, n int64) {
	r.mu.Lock()
	r.counters[name] += n
	r.mu.Unlock()
}

// Counter returns the current value of a named counter.
func (r *Run) Counter(name string) int64 {
	r.mu.Lock()
	defer r.mu.Unlock()
	return r.counters[name]
}

// Sample records an explored case for the evidence (first 12 kept).
func (r *Run) Sample(s interface{}) {
	r.mu.Lock()
	if len(r.samples) < 12 {
		r.samples = append(r.samples, s)
	}
	r.mu.Unlock()
}

// Set stores an extra coverage key.
func (r *Run) Set(key string, v interface{}) {
	r.mu.Lock()
	r.cov[key] = v
	r.mu.Unlock()
}

// Assume records an assumption / trusted-base line.
func (r *Run) Assume(s string) { r.mu.Lock(); r.assume = append(r.assume, s); r.mu.Unlock() }

// Note records a free-text note in the evidence.
func (r *Run) Note(format string, a ...interface{}) {
	r.mu.Lock()
	if len(r.notes) < 100 {
		r.notes = append(r.notes, fmt.Sprintf(format, a...))
	}
	r.mu.Unlock()
}

// Coverage is the mandatory part of the evidence.
type Coverage struct {
	States      int64  // distinct canonical cases / model states
	Transitions int64  // operation applications executed on the implementation
	Validated   int64  // cases whose implementation outcome was compared with the reference
	Evaluations int64  // executions run
	Nontrivial  int64  // distinct AND non-trivial by Rule (measured)
	Rule        string // how cases are enumerated; what makes one non-trivial
}

// Finish writes evidence, replay artefacts, prints the verdict and exits.
func (r *Run) Finish(c Coverage) {
	r.mu.Lock()
	defer r.mu.Unlock()
	wall := time.Since(r.start).Seconds()

	var newSigs, knownSigs []string
	for _, sig := range r.order {
		if _, ok := r.known[sig]; ok {
			knownSigs = append(knownSigs, sig)
		} else {
			newSigs = append(newSigs, sig)
		}
	}
	sort.Strings(newSigs)
	sort.Strings(knownSigs)

	_ = os.MkdirAll(filepath.Join(Root, "replays"), 0o755)
	_ = os.MkdirAll(filepath.Join(Root, "evidence"), 0o755)

	for _, sig := range knownSigs {
		g := r.groups[sig]
		fmt.Printf("KNOWN-FINDING: property=%s sig=%s %s (cases this run: %d)\n",
			r.Prop, sig, r.known[sig], g.Count)
	}
	var replayPaths []string
	for i, sig := range newSigs {
		g := r.groups[sig]
		h := sha1.Sum([]byte(sig))
		p := filepath.Join(Root, "replays", fmt.Sprintf("%s-%x.json", r.Prop, h[:5]))
		rp := Replay{Property: r.Prop, Signature: sig, What: g.What, Count: g.Count,
			Cases: g.Examples,
			HowTo: fmt.Sprintf("cd %s && ./run replay %s", Root, p)}
		b, _ := json.MarshalIndent(rp, "", " ")
		if err := os.WriteFile(p, b, 0o644); err != nil {
			fmt.Printf("INTERNAL: cannot write replay %s: %v\n", p, err)
		}
		replayPaths = append(replayPaths, p)
		if i < 40 {
			fmt.Printf("VIOLATION property=%s replay=%s\n", r.Prop, p)
			fmt.Printf("  signature: %s\n  what: %s\n  cases: %d\n", sig, g.What, g.Count)
			if len(g.Examples) > 0 {
				eb, _ := json.Marshal(g.Examples[0])
				s := string(eb)
				if len(s) > 600 {
					s = s[:600] + "..."
				}
				fmt.Printf("  first: %s\n", s)
			}
		}
	}
	if len(newSigs) > 40 {
		fmt.Printf("  ... and %d more violation signatures (see evidence)\n", len(newSigs)-40)
	}
	for _, m := range r.internal {
		fmt.Printf("INTERNAL: %s\n", m)
	}

	cov := map[string]interface{}{}
	for k, v := range r.cov {
		cov[k] = v
	}
	if c.States < 1 {
		c.States = 1
	}
	if c.Transitions < 1 {
		c.Transitions = 1
	}
	cov["states"] = c.States
	cov["transitions"] = c.Transitions
	cov["traces_validated_against_impl"] = c.Validated
	cov["evaluations"] = c.Evaluations
	cov["distinct_nontrivial"] = c.Nontrivial
	cov["rule"] = c.Rule
	cov["exhaustive"] = r.exhaust
	if !r.exhaust {
		cov["not_exhaustive_because"] = r.exhaustNo
	}
	if len(r.samples) == 0 {
		r.samples = append(r.samples, "no sample recorded")
	}
	cov["samples"] = r.samples
	cov["distinct_outcomes"] = len(r.outcomes)
	oc := map[string]int64{}
	type kv struct {
		k string
		v int64
	}
	var kvs []kv
	for k, v := range r.outcomes {
		kvs = append(kvs, kv{k, v})
	}
	sort.Slice(kvs, func(i, j int) bool {
		if kvs[i].v != kvs[j].v {
			return kvs[i].v > kvs[j].v
		}
		return kvs[i].k < kvs[j].k
	})
	for i, e := range kvs {
		if i >= 60 {
			break
		}
		oc[e.k] = e.v
	}
	cov["outcome_histogram"] = oc
	if len(r.counters) > 0 {
		cov["counters"] = r.counters
	}
	if len(r.notes) > 0 {
		cov["notes"] = r.notes
	}
	kf := []map[string]interface{}{}
	for _, sig := range knownSigs {
		kf = append(kf, map[string]interface{}{"signature": sig, "cases": r.groups[sig].Count})
	}
	cov["known_findings_seen"] = kf
	vs := []map[string]interface{}{}
	for i, sig := range newSigs {
		vs = append(vs, map[string]interface{}{"signature": sig, "what": r.groups[sig].What,
			"cases": r.groups[sig].Count, "replay": replayPaths[i]})
	}
	cov["violation_signatures"] = vs
	cov["gomaxprocs"] = runtime.GOMAXPROCS(0)

	ev := map[string]interface{}{
		"property_id": r.Prop,
		"tier":        r.Tier,
		"seed":        r.Seed,
		"level":       "model_checking",
		"coverage":    cov,
		"assumptions": append([]string{}, r.assume...),
		"wall_s":      wall,
		"violations":  len(newSigs),
	}
	b, _ := json.MarshalIndent(ev, "", " ")
	evPath := filepath.Join(Root, "evidence", r.Prop+".json")
	if err := os.WriteFile(evPath, append(b, '\n'), 0o644); err != nil {
		fmt.Printf("INTERNAL: cannot write evidence: %v\n", err)
	}
	fmt.Printf("%s %s: states=%d transitions=%d validated=%d evaluations=%d nontrivial=%d outcomes=%d exhaustive=%v known=%d violations=%d wall=%.1fs\n",
		r.Prop, r.Tier, c.States, c.Transitions, c.Validated, c.Evaluations, c.Nontrivial,
		len(r.outcomes), r.exhaust, len(knownSigs), len(newSigs), wall)
	if len(newSigs) > 0 {
		os.Exit(1)
	}
	os.Exit(0)
}

// Elapsed returns the time since the run started.
func (r *Run) Elapsed() time.Duration { return time.Since(r.start) }

// ParallelFor runs fn(i) for i in [0,n) on all cores. fn must be safe for
// concurrent use. Order of execution is unspecified; results must be folded
// through Run's (locked) methods or per-index slots.
func ParallelFor(n int, fn func(i int)) {
	workers := runtime.GOMAXPROCS(0)
	if workers > n {
		workers = n
	}
	if workers < 1 {
		workers = 1
	}
	var wg sync.WaitGroup
	var next int64
	var mu sync.Mutex
	const chunk = 64
	for w := 0; w < workers; w++ {
		wg.Add(1)
		go func() {
			defer wg.Done()
			for {
				mu.Lock()
				lo := int(next)
				next += chunk
				mu.Unlock()
				if lo >= n {
					return
				}
				hi := lo + chunk
				if hi > n {
					hi = n
				}
				for i := lo; i < hi; i++ {
					fn(i)
				}
			}
		}()
	}
	wg.Wait()
}

// DistinctSet is a concurrency-safe set of strings for counting distinct cases.
type DistinctSet struct {
	mu sync.Mutex
	m  map[string]struct{}
}

// NewDistinctSet returns an empty set.
func NewDistinctSet() *DistinctSet { return &DistinctSet{m: map[string]struct{}{}} }

// Add inserts k and reports whether it was new.
func (d *DistinctSet) Add(k string) bool {
	d.mu.Lock()
	defer d.mu.Unlock()
	if _, ok := d.m[k]; ok {
		return false
	}
	d.m[k] = struct{}{}
	return true
}

// Len returns the number of distinct keys.
func (d *DistinctSet) Len() int64 { d.mu.Lock(); defer d.mu.Unlock(); return int64(len(d.m)) }

// LoadReplay reads a replay artefact.
func LoadReplay(path string) (*Replay, error) {
	b, err := os.ReadFile(path)
	if err != nil {
		return nil, err
	}
	var rp Replay
	if err := json.Unmarshal(b, &rp); err != nil {
		return nil, err
	}
	return &rp, nil
}

// ReplayArg returns the path following "-replay" on the command line, if any.
func ReplayArg() string {
	for i, a := range os.Args {
		if a == "-replay" && i+1 < len(os.Args) {
			return os.Args[i+1]
		}
	}
	return ""
}

// Recase converts a generic decoded JSON example back into a typed case.
func Recase(in interface{}, out interface{}) error {
	b, err := json.Marshal(in)
	if err != nil {
		return err
	}
	return json.Unmarshal(b, out)
}
