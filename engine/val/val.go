// Package val is the shared value alphabet V: every runtime type of Tengo
// with its boundary values. Each entry yields a *fresh* object on every Mk()
// call (objects are mutable), and a source spelling when one exists.
package val

import (
	"math"
	"time"

	"github.com/d5/tengo/v2"
)

// Val is one element of the alphabet.
type Val struct {
	Name string               // unique label used in evidence / replay files
	Src  string               // Tengo source spelling, "" when only injectable by the host
	Mk   func() tengo.Object  // fresh object
	Kind string               // int float bool char string bytes array imarray map immap error undefined time func
}

func i(n int64) func() tengo.Object   { return func() tengo.Object { return &tengo.Int{Value: n} } }
func f(x float64) func() tengo.Object { return func() tengo.Object { return &tengo.Float{Value: x} } }
func c(r rune) func() tengo.Object    { return func() tengo.Object { return &tengo.Char{Value: r} } }
func s(x string) func() tengo.Object  { return func() tengo.Object { return &tengo.String{Value: x} } }
func b(x string) func() tengo.Object {
	return func() tengo.Object { return &tengo.Bytes{Value: []byte(x)} }
}
func t(x time.Time) func() tengo.Object {
	return func() tengo.Object { return &tengo.Time{Value: x} }
}

func arr(xs ...func() tengo.Object) func() tengo.Object {
	return func() tengo.Object {
		a := &tengo.Array{Value: make([]tengo.Object, 0, len(xs))}
		for _, x := range xs {
			a.Value = append(a.Value, x())
		}
		return a
	}
}
func imarr(xs ...func() tengo.Object) func() tengo.Object {
	return func() tengo.Object {
		a := arr(xs...)().(*tengo.Array)
		return &tengo.ImmutableArray{Value: a.Value}
	}
}

type kv struct {
	k string
	v func() tengo.Object
}

func mp(kvs ...kv) func() tengo.Object {
	return func() tengo.Object {
		m := &tengo.Map{Value: map[string]tengo.Object{}}
		for _, e := range kvs {
			m.Value[e.k] = e.v()
		}
		return m
	}
}
func immp(kvs ...kv) func() tengo.Object {
	return func() tengo.Object {
		m := mp(kvs...)().(*tengo.Map)
		return &tengo.ImmutableMap{Value: m.Value}
	}
}

// RefTime is a fixed, clock-independent instant.
var RefTime = time.Date(2009, 11, 10, 23, 0, 0, 0, time.UTC)

// All returns the full alphabet in a fixed order (simplest first).
func All() []Val {
	shared := func() tengo.Object {
		x := &tengo.Array{Value: []tengo.Object{&tengo.Int{Value: 1}}}
		return &tengo.Array{Value: []tengo.Object{x, x}}
	}
	return []Val{
		{"undefined", "undefined", func() tengo.Object { return tengo.UndefinedValue }, "undefined"},
		{"true", "true", func() tengo.Object { return tengo.TrueValue }, "bool"},
		{"false", "false", func() tengo.Object { return tengo.FalseValue }, "bool"},
		{"i0", "0", i(0), "int"},
		{"i1", "1", i(1), "int"},
		{"i-1", "-1", i(-1), "int"},
		{"i2", "2", i(2), "int"},
		{"i3", "3", i(3), "int"},
		{"i97", "97", i(97), "int"},
		{"i255", "255", i(255), "int"},
		{"i256", "256", i(256), "int"},
		{"imin", "", i(math.MinInt64), "int"},
		{"imax", "9223372036854775807", i(math.MaxInt64), "int"},
		{"i2^53+1", "9007199254740993", i(1<<53 + 1), "int"},
		{"f0", "0.0", f(0), "float"},
		{"f-0", "", f(math.Copysign(0, -1)), "float"},
		{"f1", "1.0", f(1), "float"},
		{"f1.5", "1.5", f(1.5), "float"},
		{"f-2.5", "-2.5", f(-2.5), "float"},
		{"f97", "97.0", f(97), "float"},
		{"f2^53", "9007199254740992.0", f(1 << 53), "float"},
		{"f1e21", "1e21", f(1e21), "float"},
		{"fdenorm", "5e-324", f(5e-324), "float"},
		{"fmax", "", f(math.MaxFloat64), "float"},
		{"fnan", "", f(math.NaN()), "float"},
		{"f+inf", "", f(math.Inf(1)), "float"},
		{"f-inf", "", f(math.Inf(-1)), "float"},
		{"c0", "'\\x00'", c(0), "char"},
		{"ca", "'a'", c('a'), "char"},
		{"cA", "'A'", c('A'), "char"},
		{"c0digit", "'0'", c('0'), "char"},
		{"ceacute", "'é'", c('é'), "char"},
		{"cworld", "'世'", c('世'), "char"},
		{"cmax", "'\\U0010FFFF'", c(0x10FFFF), "char"},
		{"s-empty", `""`, s(""), "string"},
		{"s-a", `"a"`, s("a"), "string"},
		{"s-ab", `"ab"`, s("ab"), "string"},
		{"s-A", `"A"`, s("A"), "string"},
		{"s-0", `"0"`, s("0"), "string"},
		{"s-12", `"12"`, s("12"), "string"},
		{"s-010", `"010"`, s("010"), "string"},
		{"s-0x10", `"0x10"`, s("0x10"), "string"},
		{"s-1.5", `"1.5"`, s("1.5"), "string"},
		{"s-true", `"true"`, s("true"), "string"},
		{"s-utf8", `"é世"`, s("é世"), "string"},
		{"s-ea", `"éa"`, s("éa"), "string"},
		{"s-nul", `"a\x00b"`, s("a\x00b"), "string"},
		{"s-badutf8", "", s("\xff"), "string"},
		{"b-empty", `bytes("")`, b(""), "bytes"},
		{"b-a", `bytes("a")`, b("a"), "bytes"},
		{"b-abff", "", b("ab\xff"), "bytes"},
		{"a-empty", "[]", arr(), "array"},
		{"a-1", "[1]", arr(i(1)), "array"},
		{"a-123", "[1, 2, 3]", arr(i(1), i(2), i(3)), "array"},
		{"a-nested", "[[1], [2]]", arr(arr(i(1)), arr(i(2))), "array"},
		{"a-mixed", `["a", 1.0]`, arr(s("a"), f(1)), "array"},
		{"a-shared", "", shared, "array"},
		{"a-imm-nested", "[immutable([[1]])]", arr(imarr(arr(i(1)))), "array"},
		{"ia-empty", "immutable([])", imarr(), "imarray"},
		{"ia-1", "immutable([1])", imarr(i(1)), "imarray"},
		{"ia-123", "immutable([1, 2, 3])", imarr(i(1), i(2), i(3)), "imarray"},
		{"ia-mixed", "immutable([[1], 2])", imarr(arr(i(1)), i(2)), "imarray"},
		{"ia-nested", "immutable([[1], [2]])", imarr(arr(i(1)), arr(i(2))), "imarray"},
		{"m-empty", "{}", mp(), "map"},
		{"m-a1", "{a: 1}", mp(kv{"a", i(1)}), "map"},
		{"m-a1b2", "{a: 1, b: [2]}", mp(kv{"a", i(1)}, kv{"b", arr(i(2))}), "map"},
		{"m-imm-nested", "{k: immutable({j: [1]})}", mp(kv{"k", immp(kv{"j", arr(i(1))})}), "map"},
		{"m-b1", "{b: 1}", mp(kv{"b", i(1)}), "map"},
		{"m-undef", "{a: undefined}", mp(kv{"a", func() tengo.Object { return tengo.UndefinedValue }}), "map"},
		{"im-empty", "immutable({})", immp(), "immap"},
		{"im-c-undef", "immutable({c: undefined})", immp(kv{"c", func() tengo.Object { return tengo.UndefinedValue }}), "immap"},
		{"im-a1", "immutable({a: 1})", immp(kv{"a", i(1)}), "immap"},
		{"im-a1b2", "immutable({a: 1, b: [2]})", immp(kv{"a", i(1)}, kv{"b", arr(i(2))}), "immap"},
		{"e-x", `error("x")`, func() tengo.Object { return &tengo.Error{Value: &tengo.String{Value: "x"}} }, "error"},
		{"e-arr", `error([1])`, func() tengo.Object { return &tengo.Error{Value: arr(i(1))()} }, "error"},
		{"t-zero", "", t(time.Time{}), "time"},
		{"t-unix0", "time(0)", t(time.Unix(0, 0)), "time"},
		{"t-unix1", "time(1)", t(time.Unix(1, 0)), "time"},
		{"t-ref", "", t(RefTime), "time"},
		{"t-ref+1ns", "", t(RefTime.Add(1)), "time"},
		{"t-ref-otherzone", "", t(RefTime.In(time.FixedZone("X", 3600))), "time"},
		{"fn-builtin", "len", func() tengo.Object { return tengo.GetAllBuiltinFunctions()[0] }, "func"},
		{"fn-user", "", func() tengo.Object {
			return &tengo.UserFunction{Name: "uf", Value: func(args ...tengo.Object) (tengo.Object, error) {
				return tengo.UndefinedValue, nil
			}}
		}, "func"},
	}
}

// ByName looks a value up by its label.
func ByName(name string) (Val, bool) {
	for _, v := range Thorough() {
		if v.Name == name {
			return v, true
		}
	}
	return Val{}, false
}

// Snapshot renders an object as a canonical, structure-revealing string:
// type tags, exact float bits, sorted map keys. It never calls the object's
// own String/Equals methods (it is the harness's independent observer) and
// tolerates cycles (prints <cycle>).
func Snapshot(o tengo.Object) string {
	var sb []byte
	snap(&sb, o, map[interface{}]bool{}, 0)
	return string(sb)
}

// StateKey is Snapshot plus the captured variables of closures: everything a future step can depend on.
func StateKey(o tengo.Object) string {
	var sb []byte
	snap(&sb, o, map[interface{}]bool{deepFuncs{}: true}, 0)
	return string(sb)
}

// Extended returns additional values used by the thorough tiers (on top of All()).
func Extended() []Val {
	und := func() tengo.Object { return tengo.UndefinedValue }
	long := ""
	for k := 0; k < 7; k++ {
		long += "0123456789"
	}
	return []Val{
		{"i10", "10", i(10), "int"},
		{"i64", "64", i(64), "int"},
		{"i2^31", "2147483648", i(1 << 31), "int"},
		{"i2^32+65", "4294967361", i(1<<32 + 65), "int"},
		{"i-2^31", "-2147483648", i(-(1 << 31)), "int"},
		{"i2^62", "4611686018427387904", i(1 << 62), "int"},
		{"f0.5", "0.5", f(0.5), "float"},
		{"f-1", "-1.0", f(-1), "float"},
		{"f2", "2.0", f(2), "float"},
		{"f1e-7", "1e-7", f(1e-7), "float"},
		{"f1e20", "1e20", f(1e20), "float"},
		{"f2^63", "9223372036854775808.0", f(9223372036854775808.0), "float"},
		{"f-max", "", f(-math.MaxFloat64), "float"},
		{"cspace", "' '", c(' '), "char"},
		{"cnl", "'\\n'", c('\n'), "char"},
		{"c9", "'9'", c('9'), "char"},
		{"c7f", "'\\x7f'", c(0x7f), "char"},
		{"cfffd", "'\\ufffd'", c(0xFFFD), "char"},
		{"s-space", `" "`, s(" "), "string"},
		{"s-abc", `"abc"`, s("abc"), "string"},
		{"s-Ab", `"Ab"`, s("Ab"), "string"},
		{"s--1", `"-1"`, s("-1"), "string"},
		{"s-+1", `"+1"`, s("+1"), "string"},
		{"s-1e3", `"1e3"`, s("1e3"), "string"},
		{"s-NaN", `"NaN"`, s("NaN"), "string"},
		{"s-false", `"false"`, s("false"), "string"},
		{"s-cjk", `"世界"`, s("世界"), "string"},
		{"s-long", `"` + long + `"`, s(long), "string"},
		{"b-nul", "", b("\x00"), "bytes"},
		{"b-abc", `bytes("abc")`, b("abc"), "bytes"},
		{"a-undef", "[undefined]", arr(und), "array"},
		{"a-0", "[0]", arr(i(0)), "array"},
		{"a-deep", "[1, [2, [3]]]", arr(i(1), arr(i(2), arr(i(3)))), "array"},
		{"a-str", `["a"]`, arr(s("a")), "array"},
		{"ia-deep", "immutable([1, [2]])", imarr(i(1), arr(i(2))), "imarray"},
		{"m-nested", "{a: {b: 1}}", mp(kv{"a", mp(kv{"b", i(1)})}), "map"},
		{"e-undef", "error(undefined)", func() tengo.Object { return &tengo.Error{Value: tengo.UndefinedValue} }, "error"},
		{"e-err", `error(error("x"))`, func() tengo.Object {
			return &tengo.Error{Value: &tengo.Error{Value: &tengo.String{Value: "x"}}}
		}, "error"},
		{"t-unix-1", "time(-1)", t(time.Unix(-1, 0)), "time"},
		{"t-far", "", t(time.Date(9999, 12, 31, 23, 59, 59, 999999999, time.UTC)), "time"},
	}
}

// Thorough returns All() followed by Extended().
func Thorough() []Val { return append(All(), Extended()...) }
