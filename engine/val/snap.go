package val

import (
	"fmt"
	"math"
	"reflect"
	"sort"
	"strconv"

	"github.com/d5/tengo/v2"
)

// deepFuncs makes snap render the captured variables of closures too (state keys of the explorer need
// them; the value comparison with the reference semantics does not).
type deepFuncs struct{}

func snap(sb *[]byte, o tengo.Object, on map[interface{}]bool, depth int) {
	w := func(s string) { *sb = append(*sb, s...) }
	if o == nil {
		w("nil")
		return
	}
	if depth > 64 {
		w("<deep>")
		return
	}
	switch x := o.(type) {
	case *tengo.Int:
		w("int:" + strconv.FormatInt(x.Value, 10))
	case *tengo.Float:
		if math.IsNaN(x.Value) {
			w("float:NaN")
		} else {
			w("float:" + strconv.FormatUint(math.Float64bits(x.Value), 16) + "(" + strconv.FormatFloat(x.Value, 'g', -1, 64) + ")")
		}
	case *tengo.Bool:
		if x.IsFalsy() {
			w("bool:false")
		} else {
			w("bool:true")
		}
	case *tengo.Char:
		w("char:" + strconv.FormatInt(int64(x.Value), 10))
	case *tengo.String:
		w("string:" + strconv.Quote(x.Value))
	case *tengo.Bytes:
		w("bytes:" + strconv.Quote(string(x.Value)))
	case *tengo.Time:
		w("time:" + strconv.FormatInt(x.Value.Unix(), 10) + "." + strconv.Itoa(x.Value.Nanosecond()))
	case *tengo.Undefined:
		w("undefined")
	case *tengo.Error:
		w("error(")
		snap(sb, x.Value, on, depth+1)
		w(")")
	case *tengo.Array:
		snapSeq(sb, "array", x, x.Value, on, depth)
	case *tengo.ImmutableArray:
		snapSeq(sb, "imarray", x, x.Value, on, depth)
	case *tengo.Map:
		snapMap(sb, "map", x, x.Value, on, depth)
	case *tengo.ImmutableMap:
		snapMap(sb, "immap", x, x.Value, on, depth)
	case *tengo.CompiledFunction:
		w("func/compiled")
		if on[deepFuncs{}] {
			// length only: operand bytes hold global indexes, which Script assigns in map-iteration order
			w(fmt.Sprintf("#%d/%d/%d", len(x.Instructions), x.NumParameters, x.NumLocals))
		}
		if on[deepFuncs{}] && len(x.Free) > 0 && !on[x] {
			on[x] = true
			w("{free:")
			for _, f := range x.Free {
				if f == nil || f.Value == nil {
					w("nil,")
					continue
				}
				snap(sb, *f.Value, on, depth+1)
				w(",")
			}
			w("}")
			delete(on, x)
		}
	case *tengo.BuiltinFunction:
		w("func/builtin:" + x.Name)
	case *tengo.UserFunction:
		w("func/user:" + x.Name)
	case *tengo.ObjectPtr:
		w("ptr(")
		if x.Value != nil {
			snap(sb, *x.Value, on, depth+1)
		}
		w(")")
	default:
		w(fmt.Sprintf("<%T>", o))
		if on[deepFuncs{}] {
			// iterators: position and length are part of the future behaviour (unexported ints, read reflectively)
			if rv := reflect.ValueOf(o); rv.Kind() == reflect.Ptr && rv.Elem().Kind() == reflect.Struct {
				for _, fn := range []string{"i", "l"} {
					if f := rv.Elem().FieldByName(fn); f.IsValid() && f.Kind() == reflect.Int {
						w(fn + "=" + strconv.FormatInt(f.Int(), 10) + ";")
					}
				}
			}
		}
	}
}

func snapSeq(sb *[]byte, tag string, id interface{}, xs []tengo.Object, on map[interface{}]bool, depth int) {
	w := func(s string) { *sb = append(*sb, s...) }
	if on[id] {
		w("<cycle>")
		return
	}
	on[id] = true
	defer delete(on, id)
	w(tag + "[")
	for i, e := range xs {
		if i > 0 {
			w(",")
		}
		snap(sb, e, on, depth+1)
	}
	w("]")
}

func snapMap(sb *[]byte, tag string, id interface{}, m map[string]tengo.Object, on map[interface{}]bool, depth int) {
	w := func(s string) { *sb = append(*sb, s...) }
	if on[id] {
		w("<cycle>")
		return
	}
	on[id] = true
	defer delete(on, id)
	keys := make([]string, 0, len(m))
	for k := range m {
		keys = append(keys, k)
	}
	sort.Strings(keys)
	w(tag + "{")
	for i, k := range keys {
		if i > 0 {
			w(",")
		}
		w(strconv.Quote(k) + ":")
		snap(sb, m[k], on, depth+1)
	}
	w("}")
}
