package vsched

import (
	"fmt"
	"sort"
	"strings"
)

// World is one fresh instance of the system under exploration.
type World interface {
	// Key is the harness part of the global state key: everything thread-local
	// or heap-resident that the future can depend on and the scheduler cannot
	// see (observations made so far, VM registers/stack/globals...).
	Key() string
	// CheckState returns invariant violations of the current (quiescent) state.
	CheckState() []string
	// CheckTerminal returns violations once every thread has finished; outcome classifies the terminal state.
	CheckTerminal() (violations []string, outcome string)
	// Pending reports whether the liveness goal is still outstanding in the current state
	// (e.g. "RunContext has not returned yet"): a fair cycle through pending states is a livelock.
	Pending() bool
}

// Harness creates worlds.
type Harness interface {
	Start(s *Sched) World
}

// Violation found by the explorer.
type Violation struct {
	Kind     string // deadlock | livelock | invariant | terminal | race | panic | internal
	Msg      string
	Schedule []Action // actions from the initial state
	Trace    []string
}

// Result of an exploration.
type Result struct {
	States      int
	Transitions int
	Executions  int
	Terminals   int
	Outcomes    map[string]int
	Violations  []Violation
	Capped      bool
	Internal    []string
	MaxDepth    int
	Branching   int // states with more than one enabled action
}

// Options bound the exploration.
type Options struct {
	MaxStates int // cap on distinct states (0 = 200000)
	MaxDepth  int // cap on schedule length (0 = 20000)
}

type node struct {
	pending bool
	enabled []int // thread ids enabled in this state
	out     []edge
}

type edge struct {
	thread int
	to     string
}

// Explore enumerates every interleaving of the harness threads up to state
// equality (DFS with replay from the initial state and a visited set keyed by
// the global state key), evaluating the invariants in every state.
func Explore(h Harness, opt Options) Result {
	if opt.MaxStates == 0 {
		opt.MaxStates = 200000
	}
	if opt.MaxDepth == 0 {
		opt.MaxDepth = 20000
	}
	res := Result{Outcomes: map[string]int{}}
	graph := map[string]*node{}
	seenViol := map[string]bool{}
	report := func(v Violation) {
		k := v.Kind + "|" + v.Msg
		if seenViol[k] || len(res.Violations) >= 50 {
			return
		}
		seenViol[k] = true
		res.Violations = append(res.Violations, v)
	}
	type frame struct {
		prefix []Action
	}
	work := []frame{{}}
	if Hung {
		res.Capped = true // an earlier exploration left an uncontrolled goroutine behind
		work = nil
	}
	for len(work) > 0 {
		f := work[len(work)-1]
		work = work[:len(work)-1]
		res.Executions++
		s := NewSched()
		w := h.Start(s)
		sched := []Action{}
		key := func() string { return s.Describe() + "||" + w.Key() }
		ok := true
		// replay the prefix except its last action, which is the forced first choice of this execution
		var forced *Action
		replay := f.prefix
		if len(f.prefix) > 0 {
			last := f.prefix[len(f.prefix)-1]
			forced = &last
			replay = f.prefix[:len(f.prefix)-1]
		}
		isEnabled := func(a Action) bool {
			for _, e := range s.Enabled() {
				if e == a {
					return true
				}
			}
			return false
		}
		for _, a := range replay {
			if !isEnabled(a) {
				res.Internal = append(res.Internal, fmt.Sprintf("nondeterministic replay: action %v not enabled at step %d (enabled %v)", a, len(sched), s.Enabled()))
				ok = false
				break
			}
			if p := s.Step(a); p != nil {
				kind := "panic"
				if _, isHang := p.(Hang); isHang {
					kind = "hang"
				}
				report(Violation{Kind: kind, Msg: fmt.Sprint(p), Schedule: append(sched, a), Trace: s.Trace})
				ok = false
				break
			}
			sched = append(sched, a)
		}
		for ok {
			k := key()
			en := s.Enabled()
			n, visited := graph[k]
			if forced != nil && !visited {
				res.Internal = append(res.Internal, "nondeterministic replay: the state before a forced alternative is not the recorded one: "+k)
				break
			}
			if forced == nil && visited {
				break // prune: the futures of this state are explored from its first visit
			}
			if !visited {
				n = &node{pending: w.Pending()}
				for _, e := range en {
					if len(n.enabled) == 0 || n.enabled[len(n.enabled)-1] != e.Thread {
						n.enabled = append(n.enabled, e.Thread)
					}
				}
				graph[k] = n
				res.States++
				if len(en) > 1 {
					res.Branching++
				}
				for _, m := range w.CheckState() {
					report(Violation{Kind: "invariant", Msg: m, Schedule: append([]Action{}, sched...), Trace: append([]string{}, s.Trace...)})
				}
				for _, m := range s.Races {
					report(Violation{Kind: "race", Msg: m, Schedule: append([]Action{}, sched...), Trace: append([]string{}, s.Trace...)})
				}
				if res.States >= opt.MaxStates {
					res.Capped = true
					break
				}
				if len(en) == 0 {
					if s.AllDone() {
						res.Terminals++
						vs, outcome := w.CheckTerminal()
						res.Outcomes[outcome]++
						for _, m := range vs {
							report(Violation{Kind: "terminal", Msg: m, Schedule: append([]Action{}, sched...), Trace: append([]string{}, s.Trace...)})
						}
					} else {
						report(Violation{Kind: "deadlock", Msg: "no thread enabled: " + s.Describe(), Schedule: append([]Action{}, sched...), Trace: append([]string{}, s.Trace...)})
					}
					break
				}
				// alternatives are explored later by replay
				for _, alt := range en[1:] {
					work = append(work, frame{prefix: append(append([]Action{}, sched...), alt)})
				}
			}
			if len(en) == 0 {
				break
			}
			if len(sched) >= opt.MaxDepth {
				res.Capped = true
				break
			}
			a := en[0]
			if forced != nil {
				a = *forced
				forced = nil
				if !isEnabled(a) {
					res.Internal = append(res.Internal, fmt.Sprintf("nondeterministic replay: forced action %v not enabled (enabled %v)", a, en))
					break
				}
			}
			if p := s.Step(a); p != nil {
				kind := "panic"
				if _, isHang := p.(Hang); isHang {
					kind = "hang"
				}
				report(Violation{Kind: kind, Msg: fmt.Sprint(p), Schedule: append(sched, a), Trace: s.Trace})
				break
			}
			sched = append(sched, a)
			res.Transitions++
			if len(sched) > res.MaxDepth {
				res.MaxDepth = len(sched)
			}
			n.out = append(n.out, edge{a.Thread, key()})
		}
		s.Close()
		if Hung {
			res.Capped = true
		}
		if res.Capped {
			break
		}
	}
	// edges created by replayed last actions: add them (source = state before the last prefix action)
	// They are recorded lazily: recompute is unnecessary because the alternative's first step happens in the
	// fresh-territory loop only when len(sched) == len(prefix); handled by recording below.
	if !res.Capped {
		for _, v := range fairCycles(graph) {
			report(v)
		}
	}
	return res
}

// fairCycles finds strongly connected components of pending states in which
// every thread that is enabled somewhere in the component also moves inside
// it: a fair (every enabled thread eventually scheduled) infinite execution
// that never reaches the goal, i.e. a livelock.
func fairCycles(graph map[string]*node) []Violation {
	keys := make([]string, 0, len(graph))
	for k := range graph {
		keys = append(keys, k)
	}
	sort.Strings(keys)
	index := map[string]int{}
	low := map[string]int{}
	on := map[string]bool{}
	var stack []string
	var out []Violation
	idx := 0
	// iterative Tarjan restricted to pending nodes
	type fr struct {
		k string
		i int
	}
	for _, root := range keys {
		if _, seen := index[root]; seen || !graph[root].pending {
			continue
		}
		cs := []fr{{root, 0}}
		index[root], low[root] = idx, idx
		idx++
		stack = append(stack, root)
		on[root] = true
		for len(cs) > 0 {
			top := &cs[len(cs)-1]
			n := graph[top.k]
			if top.i < len(n.out) {
				to := n.out[top.i].to
				top.i++
				tn, exists := graph[to]
				if !exists || !tn.pending {
					continue
				}
				if _, seen := index[to]; !seen {
					index[to], low[to] = idx, idx
					idx++
					stack = append(stack, to)
					on[to] = true
					cs = append(cs, fr{to, 0})
				} else if on[to] && index[to] < low[top.k] {
					low[top.k] = index[to]
				}
				continue
			}
			// pop
			k := top.k
			cs = cs[:len(cs)-1]
			if len(cs) > 0 && low[k] < low[cs[len(cs)-1].k] {
				low[cs[len(cs)-1].k] = low[k]
			}
			if low[k] == index[k] {
				var comp []string
				for {
					x := stack[len(stack)-1]
					stack = stack[:len(stack)-1]
					on[x] = false
					comp = append(comp, x)
					if x == k {
						break
					}
				}
				in := map[string]bool{}
				for _, x := range comp {
					in[x] = true
				}
				moving, enabled := map[int]bool{}, map[int]bool{}
				edges := 0
				for _, x := range comp {
					for _, t := range graph[x].enabled {
						enabled[t] = true
					}
					for _, e := range graph[x].out {
						if in[e.to] {
							moving[e.thread] = true
							edges++
						}
					}
				}
				if edges == 0 {
					continue
				}
				fair := true
				for t := range enabled {
					if !moving[t] {
						fair = false
					}
				}
				if fair {
					var mv []string
					for t := range moving {
						mv = append(mv, fmt.Sprintf("t%d", t))
					}
					sort.Strings(mv)
					sort.Strings(comp)
					out = append(out, Violation{Kind: "livelock",
						Msg: fmt.Sprintf("fair cycle of %d states in which the goal is never reached; only %s move and no other thread is enabled; e.g. state %s",
							len(comp), strings.Join(mv, ","), comp[0])})
				}
			}
		}
	}
	return out
}
