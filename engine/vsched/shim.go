package vsched

import (
	"fmt"
	"reflect"
	"sync"
	"sync/atomic"
)

// RWMutex replaces sync.RWMutex in the instrumented sources (Mutex is the
// same type restricted to Lock/Unlock).
type RWMutex struct {
	real  sync.RWMutex
	w     bool
	r     int
	owner int
	// announced: a writer has called Lock (it holds the lock or waits for the readers to leave)
	announced bool
	vc        []int // clock released by the last writer (Unlock)
	rvc       []int // join of the clocks released by readers since then (RUnlock): ordered before the NEXT WRITER only
}

// Mutex replaces sync.Mutex.
type Mutex = RWMutex

func (m *RWMutex) Lock() {
	s := active.Load()
	if s == nil || s.running == nil {
		m.real.Lock()
		return
	}
	s.muID(m)
	s.point(&pendingOp{kind: opLockCall, label: "Lock-call", mu: m})
	m.announced = true
	s.point(&pendingOp{kind: opLock, label: "Lock", mu: m})
	m.w, m.owner = true, s.running.id
	s.acquire(m.vc)
	s.acquire(m.rvc)
}

// TryLock never blocks: a scheduling point, then the attempt.
func (m *RWMutex) TryLock() bool {
	s := active.Load()
	if s == nil || s.running == nil {
		return m.real.TryLock()
	}
	s.muID(m)
	s.point(&pendingOp{kind: opPoint, label: "TryLock", mu: m})
	if m.w || m.announced || m.r > 0 {
		return false
	}
	m.w, m.announced, m.owner = true, true, s.running.id
	s.acquire(m.vc)
	s.acquire(m.rvc)
	return true
}

// TryRLock never blocks.
func (m *RWMutex) TryRLock() bool {
	s := active.Load()
	if s == nil || s.running == nil {
		return m.real.TryRLock()
	}
	s.muID(m)
	s.point(&pendingOp{kind: opPoint, label: "TryRLock", mu: m})
	if m.w || m.announced {
		return false
	}
	m.r++
	s.acquire(m.vc)
	return true
}

func (m *RWMutex) Unlock() {
	if !m.w { // locked in pass-through mode
		m.real.Unlock()
		return
	}
	m.w, m.announced, m.owner = false, false, -1
	if s := active.Load(); s != nil && s.running != nil {
		m.vc = s.release()
		m.rvc = nil
	}
}

func (m *RWMutex) RLock() {
	s := active.Load()
	if s == nil || s.running == nil {
		m.real.RLock()
		return
	}
	s.muID(m)
	s.point(&pendingOp{kind: opRLock, label: "RLock", mu: m})
	m.r++
	s.acquire(m.vc)
}

func (m *RWMutex) RUnlock() {
	if m.r == 0 { // locked in pass-through mode
		m.real.RUnlock()
		return
	}
	m.r--
	if s := active.Load(); s != nil && s.running != nil {
		// readers are NOT ordered with each other: a later RLock acquires the last writer's clock only
		m.rvc = joinVC(m.rvc, s.release())
	}
}

// atomics: a scheduling point, then the real operation. The variable is a
// synchronisation object for happens-before (store -> load).
func atomPoint(label string, addr *int64, write bool) {
	s := active.Load()
	if s == nil || s.running == nil {
		return
	}
	s.point(&pendingOp{kind: opAtomic, label: label})
	if v, ok := s.objVC[addr]; ok {
		s.acquire(v)
	}
	if write {
		s.objVC[addr] = s.release()
	}
}

func LoadInt64(addr *int64) int64 {
	atomPoint("atomic.Load", addr, false)
	return atomic.LoadInt64(addr)
}

func StoreInt64(addr *int64, v int64) {
	atomPoint(fmt.Sprintf("atomic.Store(%d)", v), addr, true)
	atomic.StoreInt64(addr, v)
}

func AddInt64(addr *int64, d int64) int64 {
	atomPoint("atomic.Add", addr, true)
	return atomic.AddInt64(addr, d)
}

func CompareAndSwapInt64(addr *int64, old, new int64) bool {
	atomPoint("atomic.CAS", addr, true)
	return atomic.CompareAndSwapInt64(addr, old, new)
}

// Go replaces the go statement.
func Go(f func()) {
	s := active.Load()
	if s == nil || s.running == nil {
		go f()
		return
	}
	parent := s.running
	parent.vc[parent.id]++
	s.spawn(fmt.Sprintf("go#%d", len(s.threads)), f, parent)
}

// MakeChan registers a channel created by instrumented code (stable name:
// creating thread + per-thread creation counter) and returns it unchanged.
func MakeChan(ch interface{}) interface{} {
	s := active.Load()
	if s == nil || s.running == nil {
		return ch
	}
	t := s.running.id
	s.chanSeq[t]++
	s.chanIDs[reflect.ValueOf(ch).Pointer()] = fmt.Sprintf("c%d.%d", t, s.chanSeq[t])
	return ch
}

// BeforeSend is inserted before a statement that sends on ch.
func BeforeSend(ch interface{}) {
	s := active.Load()
	if s == nil || s.running == nil {
		return
	}
	v := reflect.ValueOf(ch)
	if v.Cap() == 0 {
		panic("vsched: unbuffered channel send is not modelled")
	}
	s.point(&pendingOp{kind: opSend, label: "send", chans: []reflect.Value{v}})
	s.objVC[v.Pointer()] = s.release() // the buffered message carries the sender's clock
}

// BeforeRecv is inserted before a statement that receives from ch.
func BeforeRecv(ch interface{}) {
	s := active.Load()
	if s == nil || s.running == nil {
		return
	}
	v := reflect.ValueOf(ch)
	s.point(&pendingOp{kind: opRecv, label: "recv", chans: []reflect.Value{v}})
	if vc, ok := s.objVC[v.Pointer()]; ok {
		s.acquire(vc)
	}
}

// Select replaces a select statement whose cases are all receives: it parks
// until a case is ready and returns the index of the case the explorer chose
// (len(chans) for default). The caller then performs that receive.
func Select(hasDefault bool, chans ...interface{}) int {
	s := active.Load()
	if s == nil || s.running == nil {
		panic("vsched.Select outside a controlled thread (instrumented code guards it with Controlled())")
	}
	op := &pendingOp{kind: opSelect, label: "select", hasDefault: hasDefault}
	for _, c := range chans {
		op.chans = append(op.chans, reflect.ValueOf(c))
	}
	c := s.point(op)
	if c < len(op.chans) {
		if vc, ok := s.objVC[op.chans[c].Pointer()]; ok {
			s.acquire(vc)
		}
	}
	return c
}

// Controlled reports whether the caller runs as a controlled thread of an active exploration.
func Controlled() bool {
	s := active.Load()
	return s != nil && s.running != nil
}

// Point is a generic always-enabled scheduling point for harness threads.
func Point(label string) {
	s := active.Load()
	if s == nil || s.running == nil {
		return
	}
	s.point(&pendingOp{kind: opPoint, label: label})
}

// Pool replaces sync.Pool. Outside a controlled execution it is a plain sync.Pool. Under the scheduler it is a
// deterministic LIFO free list whose Get and Put are scheduling points; Put is followed by a second point, so
// that what the caller still does with the object it has just handed back can interleave with the next owner.
// The free list is emptied at the first use in every execution (pools are package-level variables).
type Pool struct {
	New   func() interface{}
	real  sync.Pool
	items []interface{}
	owner *Sched
}

func (p *Pool) enter(s *Sched) {
	if p.owner != s {
		p.owner, p.items = s, nil
		s.pools = append(s.pools, p)
	}
}

// Get takes an object from the pool (or makes a new one).
func (p *Pool) Get() interface{} {
	s := active.Load()
	if s == nil || s.running == nil {
		if v := p.real.Get(); v != nil {
			return v
		}
		if p.New != nil {
			return p.New()
		}
		return nil
	}
	s.point(&pendingOp{kind: opPoint, label: "pool.Get"})
	p.enter(s)
	if n := len(p.items); n > 0 {
		v := p.items[n-1]
		p.items = p.items[:n-1]
		return v
	}
	if p.New != nil {
		return p.New()
	}
	return nil
}

// Put hands an object back.
func (p *Pool) Put(x interface{}) {
	s := active.Load()
	if s == nil || s.running == nil {
		p.real.Put(x)
		return
	}
	s.point(&pendingOp{kind: opPoint, label: "pool.Put"})
	p.enter(s)
	p.items = append(p.items, x)
	s.point(&pendingOp{kind: opPoint, label: "pool.Put-done"})
}
