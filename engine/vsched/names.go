package vsched

import (
	"fmt"
	"reflect"
)

func reflectTypeName(obj interface{}) string {
	t := reflect.TypeOf(obj)
	for t != nil && t.Kind() == reflect.Ptr {
		t = t.Elem()
	}
	if t == nil {
		return "?"
	}
	return t.Name()
}

// objName gives objects stable names in order of first mention within one execution.
func (s *Sched) objName(obj interface{}) string {
	p := reflect.ValueOf(obj).Pointer()
	if s.objNames == nil {
		s.objNames = map[uintptr]string{}
	}
	n, ok := s.objNames[p]
	if !ok {
		n = fmt.Sprintf("o%d", len(s.objNames))
		s.objNames[p] = n
	}
	return n
}

func (s *Sched) sliceName(sl interface{}) string {
	v := reflect.ValueOf(sl)
	if v.Kind() != reflect.Slice || v.Cap() == 0 {
		return "empty"
	}
	return s.objName(v.Slice(0, v.Cap()).Index(0).Addr().Interface())
}
