package vsched

import (
	"fmt"
	"runtime"
)

func runtimeGosched() { runtime.Gosched() }

// ---- happens-before (vector clocks) ----------------------------------------

func joinVC(a, b []int) []int {
	if len(b) > len(a) {
		a = append(a, make([]int, len(b)-len(a))...)
	}
	out := append([]int{}, a...)
	for i, v := range b {
		if v > out[i] {
			out[i] = v
		}
	}
	return out
}

// acquire joins the clock of a synchronisation object into the running thread's clock.
func (s *Sched) acquire(vc []int) {
	t := s.running
	if t == nil || vc == nil {
		return
	}
	t.vc = joinVC(t.vc, vc)
}

// release returns a copy of the running thread's clock and advances it.
func (s *Sched) release() []int {
	t := s.running
	if t == nil {
		return nil
	}
	out := append([]int{}, t.vc...)
	t.vc[t.id]++
	return out
}

type lastAccess struct {
	writeVC []int
	writeT  int
	writeAt string
	readVC  map[int][]int
	readAt  map[int]string
}

func leq(a, b []int) bool {
	for i, v := range a {
		w := 0
		if i < len(b) {
			w = b[i]
		}
		if v > w {
			return false
		}
	}
	return true
}

// Touch records an access to a shared location by the running thread and
// reports a data race when it is not ordered by happens-before with the last
// conflicting access. loc names the location (object id + field).
func Touch(loc string, write bool) {
	s := active.Load()
	if s == nil || s.running == nil {
		return
	}
	t := s.running
	la := s.access[loc]
	if la == nil {
		la = &lastAccess{readVC: map[int][]int{}, readAt: map[int]string{}, writeT: -1}
		s.access[loc] = la
	}
	here := fmt.Sprintf("t%d(%s)", t.id, t.name)
	if la.writeT >= 0 && la.writeT != t.id && !leq(la.writeVC, t.vc) {
		s.race(loc, la.writeAt+" write", here, write)
	}
	if write {
		for rt, rvc := range la.readVC {
			if rt != t.id && !leq(rvc, t.vc) {
				s.race(loc, la.readAt[rt]+" read", here, true)
			}
		}
		la.writeVC, la.writeT, la.writeAt = append([]int{}, t.vc...), t.id, here
		la.readVC, la.readAt = map[int][]int{}, map[int]string{}
	} else {
		la.readVC[t.id] = append([]int{}, t.vc...)
		la.readAt[t.id] = here
	}
}

func (s *Sched) race(loc, first, second string, secondWrite bool) {
	kind := "read"
	if secondWrite {
		kind = "write"
	}
	msg := fmt.Sprintf("data race on %s: %s and %s %s are not ordered by happens-before", loc, first, second, kind)
	if len(s.Races) < 20 {
		s.Races = append(s.Races, msg)
	}
}

// TouchField records an access to field name of the object obj (a pointer).
func TouchField(obj interface{}, name string, write bool) {
	s := active.Load()
	if s == nil || s.running == nil {
		return
	}
	Touch(fmt.Sprintf("%s@%s.%s", reflectTypeName(obj), s.objName(obj), name), write)
}

// TouchSlice records an access to the elements of a slice (one location per backing array).
func TouchSlice(sl interface{}, write bool) {
	s := active.Load()
	if s == nil || s.running == nil {
		return
	}
	Touch("elements@"+s.sliceName(sl), write)
}
