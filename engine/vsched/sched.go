// Package vsched is the controlled scheduler used to model-check the real
// concurrent code of package tengo (C07, C08).
//
// It has two faces:
//
//   - a shim with the method sets of sync.Mutex / sync.RWMutex, the functions
//     of sync/atomic that tengo uses, and Go / BeforeSend / BeforeRecv / Select
//     / MakeChan, which cmd/instr substitutes into a copy of tengo's sources at
//     check time (-overlay). Outside an exploration every shim operation is a
//     plain pass-through, so Script.Compile etc. work normally.
//   - the scheduler: every controlled thread is a real goroutine, exactly one
//     runs at a time; before each synchronisation operation the thread
//     publishes the operation and parks; the controller decides who moves.
//
// The package imports nothing from tengo (the instrumented tengo imports it).
package vsched

import (
	"fmt"
	"reflect"
	"sort"
	"strings"
	"sync"
	"sync/atomic"
	"time"
)

type opKind int

const (
	opStart opKind = iota
	opLock
	opRLock
	opAtomic
	opSend
	opRecv
	opSelect
	opPoint
	opLockCall
)

var opNames = map[opKind]string{opStart: "start", opLock: "lock", opRLock: "rlock", opAtomic: "atomic",
	opSend: "send", opRecv: "recv", opSelect: "select", opPoint: "point", opLockCall: "lock-call"}

type pendingOp struct {
	kind       opKind
	label      string
	mu         *RWMutex
	chans      []reflect.Value // send/recv: 1 channel; select: all cases
	hasDefault bool
}

type thread struct {
	id      int
	name    string
	wake    chan int // >=0: run (value = chosen select case), -1: kill
	pending *pendingOp
	done    bool
	steps   int
	vc      []int // vector clock (happens-before)
}

// Action is one enabled move: thread id and, for a select with several ready cases, the case.
type Action struct {
	Thread int
	Case   int // -1 unless the thread is at a select
}

func (a Action) String() string {
	if a.Case >= 0 {
		return fmt.Sprintf("t%d/case%d", a.Thread, a.Case)
	}
	return fmt.Sprintf("t%d", a.Thread)
}

type event struct {
	t        *thread
	finished bool
	panicked interface{}
}

// Sched is one controlled execution.
type Sched struct {
	threads  []*thread
	running  *thread
	events   chan event
	killed   bool
	chanIDs  map[uintptr]string
	chanSeq  map[int]int
	muIDs    map[*RWMutex]int
	objVC    map[interface{}][]int // happens-before clocks of atomics and channels
	objNames map[uintptr]string
	Races    []string
	access   map[string]*lastAccess
	Trace    []string // executed actions with labels (diagnostics)
	wg       sync.WaitGroup
	pools    []*Pool
	hung     bool
}

// StepTimeout bounds one step (the code between two scheduling points of one thread): such a step normally takes
// microseconds; a step that does not end within this time is reported as a hang.
var StepTimeout = 60 * time.Second

// Hung is set once any step timed out: a goroutine is still running uncontrolled, so no further exploration is
// sound in this process.
var Hung bool

// Hang is returned by Step when the thread did not reach a scheduling point within StepTimeout.
type Hang struct {
	Thread int
	Name   string
	After  string
}

func (h Hang) String() string {
	return fmt.Sprintf("thread t%d(%s) did not reach another scheduling point (nor finish) within %v after %s", h.Thread, h.Name, StepTimeout, h.After)
}

var active atomic.Pointer[Sched]

type killSentinel struct{}

// NewSched creates a scheduler and makes it the active one. Only one
// exploration may be active per process at a time.
func NewSched() *Sched {
	s := &Sched{events: make(chan event, 64), chanIDs: map[uintptr]string{}, chanSeq: map[int]int{},
		muIDs: map[*RWMutex]int{}, objVC: map[interface{}][]int{}, access: map[string]*lastAccess{}}
	active.Store(s)
	return s
}

// Close tears the execution down: every parked thread is killed (its next
// scheduling point panics with a private sentinel that the thread wrapper
// recovers) and the scheduler is deactivated.
func (s *Sched) Close() {
	if s.hung {
		s.killed = true
		return // a thread is stuck outside the scheduler's control: nothing to wait for
	}
	s.killed = true
	for _, t := range s.threads {
		if !t.done {
			select {
			case t.wake <- -1:
			default:
			}
		}
	}
	s.wg.Wait()
	active.CompareAndSwap(s, nil)
}

// Spawn registers a top-level controlled thread (harness threads).
func (s *Sched) Spawn(name string, f func()) {
	s.spawn(name, f, nil)
}

func (s *Sched) spawn(name string, f func(), parent *thread) *thread {
	t := &thread{id: len(s.threads), name: name, wake: make(chan int, 1), pending: &pendingOp{kind: opStart, label: "start " + name}}
	if parent != nil {
		t.vc = append([]int{}, parent.vc...)
	}
	for len(t.vc) <= t.id {
		t.vc = append(t.vc, 0)
	}
	t.vc[t.id]++
	s.threads = append(s.threads, t)
	s.wg.Add(1)
	go func() {
		defer s.wg.Done()
		defer func() {
			r := recover()
			if _, ok := r.(killSentinel); ok || s.killed {
				t.done = true
				return
			}
			t.done = true
			s.events <- event{t: t, finished: true, panicked: r}
		}()
		if c := <-t.wake; c < 0 {
			panic(killSentinel{})
		}
		f()
	}()
	return t
}

// point parks the running thread before op and returns the chosen select case (or -1).
func (s *Sched) point(op *pendingOp) int {
	t := s.running
	if t == nil {
		panic("vsched: synchronisation operation outside a controlled thread")
	}
	if s.killed {
		panic(killSentinel{})
	}
	t.pending = op
	s.events <- event{t: t}
	c := <-t.wake
	if c < 0 {
		panic(killSentinel{})
	}
	return c
}

func chanReady(ch reflect.Value, send bool) bool {
	if send {
		return ch.Len() < ch.Cap()
	}
	if ch.Len() > 0 {
		return true
	}
	// empty: ready only if closed. A receive with default on an empty channel succeeds iff it is closed
	// (and then has no side effect).
	chosen, _, ok := reflect.Select([]reflect.SelectCase{
		{Dir: reflect.SelectRecv, Chan: ch}, {Dir: reflect.SelectDefault}})
	return chosen == 0 && !ok
}

func (s *Sched) readyCases(op *pendingOp) []int {
	var r []int
	for i, ch := range op.chans {
		if chanReady(ch, false) {
			r = append(r, i)
		}
	}
	return r
}

// Enabled lists the enabled actions in canonical order (ascending thread id, ascending case).
func (s *Sched) Enabled() []Action {
	var out []Action
	for _, t := range s.threads {
		if t.done || t.pending == nil {
			continue
		}
		op := t.pending
		switch op.kind {
		case opStart, opAtomic, opPoint:
			out = append(out, Action{t.id, -1})
		case opLockCall:
			// the writer announces itself (sync.RWMutex: from here on new readers wait); one writer at a time
			if !op.mu.announced {
				out = append(out, Action{t.id, -1})
			}
		case opLock:
			// the announced writer waits for the active readers to leave
			if !op.mu.w && op.mu.r == 0 {
				out = append(out, Action{t.id, -1})
			}
		case opRLock:
			// readers wait while a writer holds the lock OR has announced itself (writer preference): a goroutine
			// that read-locks again while a writer is waiting deadlocks, as with the real sync.RWMutex
			if !op.mu.w && !op.mu.announced {
				out = append(out, Action{t.id, -1})
			}
		case opSend:
			if chanReady(op.chans[0], true) {
				out = append(out, Action{t.id, -1})
			}
		case opRecv:
			if chanReady(op.chans[0], false) {
				out = append(out, Action{t.id, -1})
			}
		case opSelect:
			rc := s.readyCases(op)
			for _, c := range rc {
				out = append(out, Action{t.id, c})
			}
			if len(rc) == 0 && op.hasDefault {
				out = append(out, Action{t.id, len(op.chans)})
			}
		}
	}
	return out
}

// AllDone reports whether every thread has finished.
func (s *Sched) AllDone() bool {
	for _, t := range s.threads {
		if !t.done {
			return false
		}
	}
	return true
}

// Step lets the thread of action a perform its pending operation and run to
// its next scheduling point (or its end). It returns a non-nil value if the
// thread panicked with something other than the kill sentinel.
func (s *Sched) Step(a Action) (panicked interface{}) {
	t := s.threads[a.Thread]
	op := t.pending
	t.pending = nil
	t.steps++
	s.Trace = append(s.Trace, fmt.Sprintf("t%d(%s):%s", t.id, t.name, op.label))
	s.running = t
	c := a.Case
	if c < 0 {
		c = 0
	}
	t.wake <- c
	var ev event
	select {
	case ev = <-s.events:
	case <-time.After(StepTimeout):
		// the thread neither reached its next scheduling point nor finished: it is stuck inside code that has no
		// point (e.g. an instruction that loops for ever). It cannot be stopped; the scheduler is unusable from here on.
		s.hung = true
		Hung = true
		return Hang{Thread: t.id, Name: t.name, After: op.label}
	}
	s.running = nil
	if ev.t != t {
		panic(fmt.Sprintf("vsched: event from thread %d while thread %d was running", ev.t.id, t.id))
	}
	if ev.finished {
		return ev.panicked
	}
	return nil
}

// ---- state description -----------------------------------------------------

// Describe renders the scheduler-visible state: per thread its status and
// pending operation (objects named stably), plus lock and channel states.
func (s *Sched) Describe() string {
	var sb strings.Builder
	for _, t := range s.threads {
		fmt.Fprintf(&sb, "t%d:", t.id)
		switch {
		case t.done:
			sb.WriteString("done")
		case t.pending == nil:
			sb.WriteString("running")
		default:
			op := t.pending
			sb.WriteString(opNames[op.kind])
			if op.kind == opAtomic || op.kind == opPoint || op.kind == opStart {
				sb.WriteString("(" + op.label + ")")
			}
			if op.mu != nil {
				fmt.Fprintf(&sb, "(m%d)", s.muID(op.mu))
			}
			for _, ch := range op.chans {
				sb.WriteString("(" + s.chanDesc(ch) + ")")
			}
		}
		sb.WriteString(";")
	}
	var mus []string
	for m, id := range s.muIDs {
		mus = append(mus, fmt.Sprintf("m%d=w%v/a%v/r%d/o%d", id, m.w, m.announced, m.r, m.owner))
	}
	sort.Strings(mus)
	sb.WriteString(strings.Join(mus, ","))
	for i, p := range s.pools {
		fmt.Fprintf(&sb, ";pool%d=%d", i, len(p.items))
	}
	return sb.String()
}

func (s *Sched) muID(m *RWMutex) int {
	id, ok := s.muIDs[m]
	if !ok {
		id = len(s.muIDs)
		s.muIDs[m] = id
	}
	return id
}

func (s *Sched) chanDesc(ch reflect.Value) string {
	name, ok := s.chanIDs[ch.Pointer()]
	if !ok {
		name = "ext" // a channel not created through MakeChan (e.g. ctx.Done())
	}
	closed := ""
	if ch.Len() == 0 && chanReady(ch, false) {
		closed = "/closed"
	}
	return fmt.Sprintf("%s:%d/%d%s", name, ch.Len(), ch.Cap(), closed)
}

// Running returns the id of the running thread (-1 if none).
func (s *Sched) Running() int {
	if s.running == nil {
		return -1
	}
	return s.running.id
}

// Current returns the active scheduler, or nil.
func Current() *Sched { return active.Load() }

// ThreadDone reports whether thread id has finished (false for unknown ids).
func (s *Sched) ThreadDone(id int) bool {
	if id < 0 || id >= len(s.threads) {
		return false
	}
	return s.threads[id].done
}

// NumThreads returns the number of threads created so far.
func (s *Sched) NumThreads() int { return len(s.threads) }

// LocksFree reports whether no modelled mutex is held.
func (s *Sched) LocksFree() bool {
	for m := range s.muIDs {
		if m.w || m.r > 0 {
			return false
		}
	}
	return true
}

// ThreadSteps returns how many scheduling steps thread id has taken.
func (s *Sched) ThreadSteps(id int) int {
	if id < 0 || id >= len(s.threads) {
		return -1
	}
	return s.threads[id].steps
}
