package vsched

import (
	"fmt"
	"testing"
)

// toy world: two threads increment a shared counter, with or without a lock.
type toy struct {
	locked bool
	n      int
	mu     RWMutex
	obs    [2]int
}

func (w *toy) Key() string          { return fmt.Sprint(w.n, w.obs) }
func (w *toy) CheckState() []string { return nil }
func (w *toy) Pending() bool        { return false }
func (w *toy) CheckTerminal() ([]string, string) {
	if w.n != 2 {
		return []string{fmt.Sprintf("lost update: n=%d", w.n)}, fmt.Sprint(w.n)
	}
	return nil, "2"
}

type toyH struct{ locked bool }

func (h toyH) Start(s *Sched) World {
	w := &toy{locked: h.locked}
	for i := 0; i < 2; i++ {
		i := i
		s.Spawn(fmt.Sprintf("inc%d", i), func() {
			if w.locked {
				w.mu.Lock()
			}
			Point("read")
			Touch("n", false)
			v := w.n
			Point("write")
			Touch("n", true)
			w.n = v + 1
			w.obs[i] = v
			if w.locked {
				w.mu.Unlock()
			}
		})
	}
	return w
}

func TestToy(t *testing.T) {
	r := Explore(toyH{locked: false}, Options{})
	if len(r.Violations) == 0 {
		t.Fatalf("unlocked counter: expected lost update, got none (%+v)", r)
	}
	kinds := map[string]bool{}
	for _, v := range r.Violations {
		kinds[v.Kind] = true
	}
	if !kinds["terminal"] || !kinds["race"] {
		t.Fatalf("expected terminal and race violations, got %v", r.Violations)
	}
	r2 := Explore(toyH{locked: true}, Options{})
	if len(r2.Violations) != 0 || len(r2.Internal) != 0 {
		t.Fatalf("locked counter: unexpected %v %v", r2.Violations, r2.Internal)
	}
	t.Logf("unlocked: %d states %d transitions %d executions outcomes %v; locked: %d states %d executions", r.States, r.Transitions, r.Executions, r.Outcomes, r2.States, r2.Executions)
}

// readers of an RWMutex are not ordered with each other: a write inside a read-lock section races with the same
// write in another reader; a reader's write does not race with a later writer section.
type rdw struct {
	mu   RWMutex
	mode string
}

func (w *rdw) Key() string                       { return "" }
func (w *rdw) CheckState() []string              { return nil }
func (w *rdw) Pending() bool                     { return false }
func (w *rdw) CheckTerminal() ([]string, string) { return nil, "done" }

type rdwH struct{ mode string }

func (h rdwH) Start(s *Sched) World {
	w := &rdw{mode: h.mode}
	s.Spawn("r0", func() { w.mu.RLock(); Touch("flag", true); w.mu.RUnlock() })
	if h.mode == "two-readers" {
		s.Spawn("r1", func() { w.mu.RLock(); Touch("flag", true); w.mu.RUnlock() })
	} else {
		s.Spawn("w1", func() { w.mu.Lock(); Touch("flag", true); w.mu.Unlock() })
	}
	return w
}

func TestReaderSectionsAreNotOrdered(t *testing.T) {
	race := func(mode string) bool {
		for _, v := range Explore(rdwH{mode}, Options{}).Violations {
			if v.Kind == "race" {
				return true
			}
		}
		return false
	}
	if !race("two-readers") {
		t.Fatal("two writes in two read-lock sections must be reported as a race")
	}
	if race("reader-writer") {
		t.Fatal("a read-lock section and a write-lock section are ordered by the lock")
	}
}

// writer preference: a goroutine that read-locks twice deadlocks when a writer calls Lock in between (as with the
// real sync.RWMutex); without the nested RLock there is no deadlock.
type rr struct {
	mu     RWMutex
	nested bool
}

func (w *rr) Key() string                       { return "" }
func (w *rr) CheckState() []string              { return nil }
func (w *rr) Pending() bool                     { return false }
func (w *rr) CheckTerminal() ([]string, string) { return nil, "done" }

type rrH struct{ nested bool }

func (h rrH) Start(s *Sched) World {
	w := &rr{nested: h.nested}
	s.Spawn("reader", func() {
		w.mu.RLock()
		if w.nested {
			w.mu.RLock()
			w.mu.RUnlock()
		}
		w.mu.RUnlock()
	})
	s.Spawn("writer", func() { w.mu.Lock(); w.mu.Unlock() })
	return w
}

func TestRecursiveReadLockDeadlocksUnderWriterPreference(t *testing.T) {
	dead := func(nested bool) bool {
		for _, v := range Explore(rrH{nested}, Options{}).Violations {
			if v.Kind == "deadlock" {
				return true
			}
		}
		return false
	}
	if !dead(true) {
		t.Fatal("nested RLock with a writer arriving in between must be found to deadlock")
	}
	if dead(false) {
		t.Fatal("plain reader / writer must not deadlock")
	}
}
