// Package tg is the thin layer every check uses to drive the real
// implementation through its public API: Script.Add -> Compile -> RunContext
// -> GetAll, with panics of the implementation captured as an outcome class.
package tg

import (
	"context"
	"fmt"
	"runtime/debug"
	"sort"
	"strings"

	"github.com/d5/tengo/v2"
	"verif/engine/val"
)

// Outcome of compiling and running one program.
type Outcome struct {
	Class   string                  // "ok" | "compile-error" | "runtime-error" | "panic"
	Err     error                   // returned error, if any
	ErrText string                  // its text (or the panic value + stack)
	Globals map[string]tengo.Object // every global after the run (also after a runtime error)
	Comp    *tengo.Compiled
}

// Opts configures a run.
type Opts struct {
	Inputs    map[string]tengo.Object
	Modules   tengo.ModuleGetter
	MaxAllocs int64 // 0 means "do not set" (unlimited); use SetAllocs to pass 0
	SetAllocs bool
	FileImport bool
	ImportDir  string
}

// Run compiles and runs src.
func Run(src string, o Opts) (out Outcome) {
	defer func() {
		if r := recover(); r != nil {
			out.Class = "panic"
			out.ErrText = fmt.Sprintf("%v\n%s", r, debug.Stack())
		}
	}()
	s := tengo.NewScript([]byte(src))
	for k, v := range o.Inputs {
		if err := s.Add(k, v); err != nil {
			return Outcome{Class: "panic", ErrText: "Add failed: " + err.Error()}
		}
	}
	if o.Modules != nil {
		s.SetImports(o.Modules)
	}
	if o.SetAllocs {
		s.SetMaxAllocs(o.MaxAllocs)
	}
	if o.FileImport {
		s.EnableFileImport(true)
		_ = s.SetImportDir(o.ImportDir)
	}
	c, err := s.Compile()
	if err != nil {
		return Outcome{Class: "compile-error", Err: err, ErrText: err.Error()}
	}
	out.Comp = c
	err = c.RunContext(context.Background())
	out.Globals = map[string]tengo.Object{}
	for _, v := range c.GetAll() {
		out.Globals[v.Name()] = v.Object()
	}
	if err != nil {
		out.Class = "runtime-error"
		if err.Error() == budgetText {
			out.Class = "budget"
		}
		out.Err = err
		out.ErrText = err.Error()
		return
	}
	out.Class = "ok"
	return
}

// budgetText is the text of ErrBudget (direct.go, verif builds).
const budgetText = "verif: step budget exhausted"

// RunCompiled runs an already compiled object, capturing panics.
func RunCompiled(c *tengo.Compiled) (class string, err error, text string) {
	defer func() {
		if r := recover(); r != nil {
			class = "panic"
			text = fmt.Sprintf("%v\n%s", r, debug.Stack())
		}
	}()
	err = c.RunContext(context.Background())
	if err != nil {
		return "runtime-error", err, err.Error()
	}
	return "ok", nil, ""
}

// GlobalsSnapshot renders all user-visible globals canonically. Names starting
// with ':' (compiler temporaries) and names in skip are omitted.
func GlobalsSnapshot(g map[string]tengo.Object, skip ...string) string {
	names := make([]string, 0, len(g))
outer:
	for k := range g {
		if strings.HasPrefix(k, ":") {
			continue
		}
		for _, s := range skip {
			if s == k {
				continue outer
			}
		}
		names = append(names, k)
	}
	sort.Strings(names)
	var sb strings.Builder
	for _, k := range names {
		sb.WriteString(k)
		sb.WriteString("=")
		sb.WriteString(val.Snapshot(g[k]))
		sb.WriteString(";")
	}
	return sb.String()
}

// FirstLine returns the first line of an error text.
func FirstLine(s string) string {
	if i := strings.IndexByte(s, '\n'); i >= 0 {
		return s[:i]
	}
	return s
}
