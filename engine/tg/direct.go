//go:build verif

package tg

import (
	"fmt"
	"runtime/debug"
	"sort"

	"github.com/d5/tengo/v2"
	"github.com/d5/tengo/v2/parser"
)

// Direct is the result of compiling with an explicitly constructed compiler
// (the same steps as Script.Compile, but the compiler object is ours, so that
// verification switches can be set and the raw bytecode inspected).
type Direct struct {
	Class    string // ok | compile-error | panic
	Err      error
	ErrText  string
	Bytecode *tengo.Bytecode
	Globals  []tengo.Object
	Names    map[string]int // global name -> index
	Symbols  *tengo.SymbolTable
}

// CompileDirect parses and compiles src. Inputs are defined as globals in
// sorted name order. dedup applies Bytecode.RemoveDuplicates like Script.Compile.
func CompileDirect(src string, inputs map[string]tengo.Object, mods tengo.ModuleGetter, noDCE, dedup bool) (d Direct) {
	defer func() {
		if r := recover(); r != nil {
			d.Class = "panic"
			d.ErrText = fmt.Sprintf("%v\n%s", r, debug.Stack())
		}
	}()
	st := tengo.NewSymbolTable()
	for idx, fn := range tengo.GetAllBuiltinFunctions() {
		st.DefineBuiltin(idx, fn.Name)
	}
	globals := make([]tengo.Object, tengo.GlobalsSize)
	names := make([]string, 0, len(inputs))
	for k := range inputs {
		names = append(names, k)
	}
	sort.Strings(names)
	for _, n := range names {
		sym := st.Define(n)
		globals[sym.Index] = inputs[n]
	}
	fs := parser.NewFileSet()
	sf := fs.AddFile("(main)", -1, len(src))
	p := parser.NewParser(sf, []byte(src), nil)
	file, err := p.ParseFile()
	if err != nil {
		return Direct{Class: "compile-error", Err: err, ErrText: err.Error()}
	}
	c := tengo.NewCompiler(sf, st, nil, mods, nil)
	c.VerifSetNoDCE(noDCE)
	if err := c.Compile(file); err != nil {
		return Direct{Class: "compile-error", Err: err, ErrText: err.Error()}
	}
	bc := c.Bytecode()
	if dedup {
		bc.RemoveDuplicates()
	}
	d = Direct{Class: "ok", Bytecode: bc, Globals: globals, Names: map[string]int{}, Symbols: st}
	for _, n := range st.Names() {
		if sym, _, ok := st.Resolve(n, false); ok && sym.Scope == tengo.ScopeGlobal {
			d.Names[n] = sym.Index
		}
	}
	return
}

// VMRun is the outcome of running bytecode on a fresh VM.
type VMRun struct {
	Class      string // ok | runtime-error | panic | budget
	Err        error
	ErrText    string
	Steps      int64
	StackEmpty bool
}

// RunVM runs bc on a fresh VM with the given globals. probe (may be nil) is
// called before every instruction; after budget steps the run is aborted and
// classified "budget" (a harness bound, never a verdict).
func RunVM(bc *tengo.Bytecode, globals []tengo.Object, maxAllocs int64, budget int64, probe func(v *tengo.VM)) (r VMRun) {
	v := tengo.NewVM(bc, globals, maxAllocs)
	over := false
	v.VerifSetProbe(func(v *tengo.VM) {
		r.Steps++
		if r.Steps > budget && !over {
			over = true
			v.Abort()
		}
		if probe != nil {
			probe(v)
		}
	})
	defer func() {
		if rec := recover(); rec != nil {
			r.Class = "panic"
			r.ErrText = fmt.Sprintf("%v\n%s", rec, debug.Stack())
		}
	}()
	err := v.Run()
	r.StackEmpty = v.IsStackEmpty()
	switch {
	case over:
		r.Class = "budget"
	case err != nil:
		r.Class, r.Err, r.ErrText = "runtime-error", err, err.Error()
	default:
		r.Class = "ok"
	}
	return
}

// GlobalsByName maps the named globals of a direct compilation to their values.
func (d Direct) GlobalsByName() map[string]tengo.Object {
	m := map[string]tengo.Object{}
	for n, i := range d.Names {
		o := d.Globals[i]
		if o == nil {
			o = tengo.UndefinedValue
		}
		m[n] = o
	}
	return m
}

// ErrBudget is the sentinel a budgeted VM panics with when its step budget is
// spent; Compiled.RunContext converts it into its return value.
var ErrBudget = fmt.Errorf("verif: step budget exhausted")

// SetStepBudget makes every VM created from now on (also inside
// Compiled.Run/RunContext) stop after n dispatched instructions. n <= 0
// removes the budget. The budget is a harness bound, never a verdict.
func SetStepBudget(n int64) {
	if n <= 0 {
		tengo.VerifNewVM = nil
		return
	}
	tengo.VerifNewVM = func(v *tengo.VM) {
		var steps int64
		v.VerifSetProbe(func(v *tengo.VM) {
			steps++
			if steps > n {
				panic(ErrBudget)
			}
		})
	}
}
