package tg

import (
	"sort"

	"github.com/d5/tengo/v2"
	"verif/engine/gen"
)

// Sources prints a generated program and wraps its modules as source modules.
type Sources struct {
	Main    *gen.Printed
	Mods    map[string]*gen.Printed
	ModMap  *tengo.ModuleMap
	AllText string // main + modules, for samples/replay artefacts
}

// Print renders a program.
func Print(p *gen.Program) Sources {
	s := Sources{Main: gen.Print(p.Main), Mods: map[string]*gen.Printed{}, ModMap: tengo.NewModuleMap()}
	s.AllText = s.Main.Src
	names := make([]string, 0, len(p.Modules))
	for n := range p.Modules {
		names = append(names, n)
	}
	sort.Strings(names)
	for _, n := range names {
		pr := gen.Print(p.Modules[n])
		s.Mods[n] = pr
		s.ModMap.AddSourceModule(n, []byte(pr.Src))
		s.AllText += "\n// ---- module " + n + "\n" + pr.Src
	}
	return s
}
