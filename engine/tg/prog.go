package tg

import (
	"math"
	"sort"
	"time"

	"github.com/d5/tengo/v2"
	"verif/engine/gen"
)

// Sources prints a generated program and wraps its modules as source modules.
type Sources struct {
	Main    *gen.Printed
	Mods    map[string]*gen.Printed
	ModMap  *tengo.ModuleMap
	AllText string // main + modules, for samples/replay artefacts
}

// ObjModule is a host-provided Importable whose module value is a plain object (not a table).
type ObjModule struct{ Obj tengo.Object }

// Import implements tengo.Importable.
func (m ObjModule) Import(string) (interface{}, error) { return m.Obj, nil }

// ObjModules are always importable by generated programs: bare singletons and scalars as module values.
func ObjModules() map[string]tengo.Object {
	return map[string]tengo.Object{
		"flagmod":  tengo.TrueValue,
		"offmod":   tengo.FalseValue,
		"undefmod": tengo.UndefinedValue,
		"nummod":   &tengo.Int{Value: 97},
		"listmod":  &tengo.ImmutableArray{Value: []tengo.Object{tengo.TrueValue, tengo.UndefinedValue, &tengo.String{Value: "a"}}},
		"errmod":   &tengo.Error{Value: tengo.TrueValue},
		"mapmod": &tengo.Map{Value: map[string]tengo.Object{"t": tengo.FalseValue, "e": &tengo.Error{Value: tengo.UndefinedValue},
			"n": &tengo.ImmutableMap{Value: map[string]tengo.Object{"u": tengo.UndefinedValue, "a": &tengo.Array{Value: []tengo.Object{tengo.TrueValue}}}}}},
		// two different host tables without a module name
		"immamod": &tengo.ImmutableMap{Value: map[string]tengo.Object{"who": &tengo.String{Value: "A"}}},
		"immbmod": &tengo.ImmutableMap{Value: map[string]tengo.Object{"who": &tengo.String{Value: "B"}}},
		// a NAMED module table handed out by a custom Importable (not registered as a BuiltinModule of the module map)
		"namedmod": (&tengo.BuiltinModule{Attrs: map[string]tengo.Object{"region": &tengo.String{Value: "eu-1"}, "n": &tengo.Int{Value: 3}}}).AsImmutableMap("namedmod"),
		"bytesmod": &tengo.Bytes{Value: []byte("a\x00\xff")},
		"timemod":  &tengo.Time{Value: time.Unix(1, 5).UTC()},
		"charmod":  &tengo.Char{Value: 0x1F600},
		"nanmod":   &tengo.Float{Value: math.NaN()},
	}
}

// Print renders a program.
func Print(p *gen.Program) Sources {
	s := Sources{Main: gen.Print(p.Main), Mods: map[string]*gen.Printed{}, ModMap: tengo.NewModuleMap()}
	s.AllText = s.Main.Src
	for n, o := range ObjModules() {
		s.ModMap.Add(n, ObjModule{o})
	}
	names := make([]string, 0, len(p.Modules))
	for n := range p.Modules {
		names = append(names, n)
	}
	sort.Strings(names)
	for _, n := range names {
		pr := gen.Print(p.Modules[n])
		s.Mods[n] = pr
		s.ModMap.AddSourceModule(n, []byte(pr.Src))
		s.AllText += "\n// ---- module " + n + "\n" + pr.Src
	}
	return s
}
