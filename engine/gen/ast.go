// Package gen is the program generator: its own AST (independent of
// /repo/parser), a printer that records source spans, a replay-based
// exhaustive chooser, and the program families shared by the checks.
package gen

// Expr is an expression node.
type Expr interface{ isExpr() }

// Stmt is a statement node.
type Stmt interface{ isStmt() }

type (
	// Lit is a literal with its source spelling; Kind: int float string char bool undefined bytes(not a literal; via call)
	Lit struct {
		Src  string
		Kind string
	}
	Ident struct{ Name string }
	Bin   struct {
		Op   string
		L, R Expr
	}
	Un struct {
		Op string
		X  Expr
	}
	Cond  struct{ C, T, F Expr }
	Call  struct {
		F      Expr
		Args   []Expr
		Spread bool
		ID     int // call-site id assigned by the printer (span map)
	}
	Index struct{ X, I Expr }
	Sel   struct {
		X    Expr
		Name string
	}
	Slice    struct{ X, Lo, Hi Expr } // Lo/Hi may be nil
	ArrayLit struct{ Elems []Expr }
	MapLit   struct {
		Keys []string
		Vals []Expr
	}
	FuncLit struct {
		Params  []string
		VarArgs bool
		Body    []Stmt
	}
	Immutable struct{ X Expr }
	ErrorE    struct{ X Expr }
	Import    struct{ Name string }
	Paren     struct{ X Expr } // explicit parentheses (printing only; transparent semantically)
)

func (*Lit) isExpr()       {}
func (*Ident) isExpr()     {}
func (*Bin) isExpr()       {}
func (*Un) isExpr()        {}
func (*Cond) isExpr()      {}
func (*Call) isExpr()      {}
func (*Index) isExpr()     {}
func (*Sel) isExpr()       {}
func (*Slice) isExpr()     {}
func (*ArrayLit) isExpr()  {}
func (*MapLit) isExpr()    {}
func (*FuncLit) isExpr()   {}
func (*Immutable) isExpr() {}
func (*ErrorE) isExpr()    {}
func (*Import) isExpr()    {}
func (*Paren) isExpr()     {}

type (
	// Assign covers := = and all compound assignments. LHS is Ident/Index/Sel chains.
	Assign struct {
		LHS Expr
		Op  string
		RHS Expr
		ID  int
	}
	IncDec struct {
		X  Expr
		Op string // "++" | "--"
		ID int
	}
	ExprStmt struct {
		X  Expr
		ID int
	}
	If struct {
		Init Stmt // may be nil
		Cond Expr
		Then []Stmt
		Else []Stmt // nil = no else; a single *If element prints as "else if"
		ID   int
	}
	For struct {
		Init Stmt
		Cond Expr
		Post Stmt
		Body []Stmt
		ID   int
	}
	ForIn struct {
		Key, Val string // Val=="" => single-variable form
		X        Expr
		Body     []Stmt
		ID       int
	}
	Break    struct{ ID int }
	Continue struct{ ID int }
	Return   struct {
		X  Expr // may be nil
		ID int
	}
	Block struct {
		Body []Stmt
		ID   int
	}
	Export struct {
		X  Expr
		ID int
	}
)

func (*Assign) isStmt()   {}
func (*IncDec) isStmt()   {}
func (*ExprStmt) isStmt() {}
func (*If) isStmt()       {}
func (*For) isStmt()      {}
func (*ForIn) isStmt()    {}
func (*Break) isStmt()    {}
func (*Continue) isStmt() {}
func (*Return) isStmt()   {}
func (*Block) isStmt()    {}
func (*Export) isStmt()   {}

// Program is a main script plus its source modules.
type Program struct {
	Main    []Stmt
	Modules map[string][]Stmt // source modules by name
	Inputs  []string          // names of host-injected variables (values supplied by the check)
}

// helpers for building ASTs tersely
func I(n string) *Ident        { return &Ident{Name: n} }
func N(src string) *Lit        { return &Lit{Src: src, Kind: "int"} }
func S(src string) *Lit        { return &Lit{Src: src, Kind: "string"} }
func B(op string, l, r Expr) *Bin { return &Bin{Op: op, L: l, R: r} }
func C(f Expr, args ...Expr) *Call { return &Call{F: f, Args: args} }
func Def(name string, rhs Expr) *Assign { return &Assign{LHS: I(name), Op: ":=", RHS: rhs} }
func Set(lhs Expr, rhs Expr) *Assign    { return &Assign{LHS: lhs, Op: "=", RHS: rhs} }
func Undef() *Lit                        { return &Lit{Src: "undefined", Kind: "undefined"} }
func True() *Lit                         { return &Lit{Src: "true", Kind: "bool"} }
func False() *Lit                        { return &Lit{Src: "false", Kind: "bool"} }
