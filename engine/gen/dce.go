package gen

// The dce family: every combination of a dead-code producer (statements
// after a return / break / continue in various enclosing constructs, 1-3 dead
// statements of different encoded sizes) with a later jump-bearing construct
// (&&, ||, ?:, if, if/else, the loop forms, break/continue), before and after
// each other, inside a function, a closure and a module. Every jump opcode of
// the optimiser's re-targeting pass is driven across a removed region.

var dceDead = []func() []Stmt{
	func() []Stmt { return []Stmt{Set(I("x"), N("100"))} },
	func() []Stmt { return []Stmt{Set(I("x"), N("100")), Set(I("x"), B("+", I("x"), N("1")))} },
	func() []Stmt {
		return []Stmt{&If{Cond: I("p"), Then: []Stmt{Set(I("x"), N("7"))}}, Set(I("x"), &ArrayLit{Elems: []Expr{I("x"), I("q")}})}
	},
	func() []Stmt { return []Stmt{&For{Cond: I("q"), Body: []Stmt{&Break{}}}} },
}

func dceProducer(kind int, dead []Stmt) []Stmt {
	ret := func() Stmt { return &Return{X: I("x")} }
	switch kind {
	case 0: // if c { return; DEAD }
		return []Stmt{&If{Cond: B("==", I("x"), N("99")), Then: append([]Stmt{ret()}, dead...)}}
	case 1: // if c { return; DEAD } else { x += 1 }
		return []Stmt{&If{Cond: B("==", I("x"), N("99")), Then: append([]Stmt{ret()}, dead...), Else: []Stmt{&Assign{LHS: I("x"), Op: "+=", RHS: N("1")}}}}
	case 2: // if c { x += 1 } else { return; DEAD }
		return []Stmt{&If{Cond: B("!=", I("x"), N("99")), Then: []Stmt{&Assign{LHS: I("x"), Op: "+=", RHS: N("1")}}, Else: append([]Stmt{ret()}, dead...)}}
	case 3: // for i... { if c { return; DEAD } }
		return []Stmt{&For{Init: Def("i", N("0")), Cond: B("<", I("i"), N("2")), Post: &IncDec{X: I("i"), Op: "++"},
			Body: []Stmt{&If{Cond: B("==", I("x"), N("99")), Then: append([]Stmt{ret()}, dead...)}, &Assign{LHS: I("x"), Op: "+=", RHS: N("1")}}}}
	case 4: // for v in arr { if c { continue; DEAD } ... } (continue is a jump, dead code after it is NOT removed: control)
		return []Stmt{&ForIn{Key: "v", X: &ArrayLit{Elems: []Expr{N("1"), N("2")}}, Body: append([]Stmt{&If{Cond: B("==", I("v"), N("1")), Then: append([]Stmt{&Continue{}}, dead...)}}, &Assign{LHS: I("x"), Op: "+=", RHS: I("v")})}}
	case 5: // nested: if c { if d { return; DEAD }; return; DEAD }
		return []Stmt{&If{Cond: B("==", I("x"), N("99")), Then: append([]Stmt{&If{Cond: I("p"), Then: append([]Stmt{ret()}, dead...)}, ret()}, dead...)}}
	}
	return nil
}

const dceProducers = 6

func dceFollower(kind int) []Stmt {
	switch kind {
	case 0:
		return []Stmt{Set(I("x"), B("||", I("p"), I("x")))}
	case 1:
		return []Stmt{Set(I("x"), B("&&", I("p"), I("x")))}
	case 2:
		return []Stmt{Set(I("x"), B("||", I("q"), B("&&", I("p"), I("x"))))}
	case 3:
		return []Stmt{Set(I("x"), &Cond{C: I("p"), T: I("x"), F: N("5")})}
	case 4:
		return []Stmt{&If{Cond: I("p"), Then: []Stmt{Set(I("x"), N("3"))}}}
	case 5:
		return []Stmt{&If{Cond: I("q"), Then: []Stmt{Set(I("x"), N("3"))}, Else: []Stmt{Set(I("x"), N("4"))}}}
	case 6:
		return []Stmt{&For{Cond: B("<", I("x"), N("3")), Body: []Stmt{&IncDec{X: I("x"), Op: "++"}}}}
	case 7:
		return []Stmt{&For{Init: Def("j", N("0")), Cond: B("<", I("j"), N("2")), Post: &IncDec{X: I("j"), Op: "++"}, Body: []Stmt{&If{Cond: I("p"), Then: []Stmt{&Continue{}}}, &IncDec{X: I("x"), Op: "++"}}}}
	case 8:
		return []Stmt{&ForIn{Key: "k", Val: "w", X: &ArrayLit{Elems: []Expr{N("1"), N("2")}}, Body: []Stmt{&If{Cond: I("q"), Then: []Stmt{&Break{}}}, Set(I("x"), I("w"))}}}
	case 9:
		return []Stmt{&Return{X: B("||", I("q"), I("x"))}}
	case 10:
		return []Stmt{&Return{X: &Cond{C: I("p"), T: B("&&", I("q"), I("x")), F: I("x")}}}
	case 11: // the jump of a short-circuit / conditional lands directly on the RETURN; the other operand is undefined
		return []Stmt{&Return{X: B("||", I("x"), Undef())}}
	case 12:
		return []Stmt{&Return{X: &Cond{C: I("p"), T: I("x"), F: Undef()}}}
	case 13:
		return []Stmt{&Return{X: B("&&", I("q"), Undef())}}
	}
	return nil
}

const dceFollowers = 14

// DcePlacements lists where the function body is placed.
// "nested": the body stands in an outer function after a nested function literal that holds the same body plus
// padding (so the inner function is optimised while the outer one is still being compiled, and is at least as
// long); the outer function ends either in `return x` or in `if p { return x }` (a jump to the function end
// followed by nothing).
var DcePlacements = []string{"func", "closure", "module", "nested"}

// Dce generates one program per chooser path. Inputs: P, Q (booleans).
func Dce(ch *Chooser) CflowProgram {
	pl := DcePlacements[ch.Choose(len(DcePlacements))]
	deadIdx, prodIdx, folIdx, order, fol2Idx := ch.Choose(len(dceDead)), ch.Choose(dceProducers), ch.Choose(dceFollowers), ch.Choose(3), 0
	if order == 2 {
		fol2Idx = ch.Choose(dceFollowers)
	}
	// fresh AST nodes on every call (a body may be placed twice)
	mkBody := func() []Stmt {
		prod := dceProducer(prodIdx, dceDead[deadIdx]())
		fol := dceFollower(folIdx)
		var body []Stmt
		switch order {
		case 0:
			body = append(append(body, prod...), fol...)
		case 1:
			body = append(append(body, fol...), prod...)
		default:
			body = append(append(append(body, fol...), prod...), dceFollower(fol2Idx)...)
		}
		return body
	}
	body := mkBody()
	p := &Program{Inputs: []string{"P", "Q"}}
	switch pl {
	case "func":
		fb := append([]Stmt{Def("x", N("0"))}, body...)
		fb = append(fb, &Return{X: I("x")})
		p.Main = []Stmt{Def("f", &FuncLit{Params: []string{"p", "q"}, Body: fb}), Def("out", C(I("f"), I("P"), I("Q")))}
	case "closure":
		gb := append(append([]Stmt{}, body...), &Return{X: I("x")})
		mk := &FuncLit{Params: []string{"p", "q"}, Body: []Stmt{Def("x", N("0")), Def("g", &FuncLit{Body: gb}), Def("r", C(I("g"))),
			&Return{X: &ArrayLit{Elems: []Expr{I("r"), I("x")}}}}}
		p.Main = []Stmt{Def("mk", mk), Def("out", C(I("mk"), I("P"), I("Q")))}
	case "module":
		mb := append([]Stmt{Def("x", N("0")), Def("p", True()), Def("q", False())}, body...)
		mb = append(mb, &Export{X: I("x")})
		p.Modules = map[string][]Stmt{"m": mb}
		p.Main = []Stmt{Def("out", &Import{Name: "m"})}
	case "nested":
		inner := append([]Stmt{Def("x", N("0"))}, mkBody()...)
		for i := 0; i < 3; i++ {
			inner = append(inner, &Assign{LHS: I("x"), Op: "+=", RHS: N("1")})
		}
		inner = append(inner, &Return{X: I("x")})
		fb := []Stmt{Def("x", N("0")), Def("h", &FuncLit{Params: []string{"p", "q"}, Body: inner})}
		fb = append(fb, body...)
		if ch.Choose(2) == 0 {
			fb = append(fb, &Return{X: &ArrayLit{Elems: []Expr{I("x"), C(I("h"), I("q"), I("p"))}}})
		} else {
			fb = append(fb, &If{Cond: I("p"), Then: []Stmt{&Return{X: &ArrayLit{Elems: []Expr{I("x"), C(I("h"), I("q"), I("p"))}}}}})
		}
		p.Main = []Stmt{Def("f", &FuncLit{Params: []string{"p", "q"}, Body: fb}),
			Def("out", &ArrayLit{Elems: []Expr{C(I("f"), I("P"), I("Q")), C(I("f"), I("Q"), I("P"))}})}
	}
	return CflowProgram{Placement: "dce-" + pl, Prog: p}
}
