package gen

import (
	"fmt"
	"strings"
	"unicode"
)

// ParseExpr parses the small literal-expression subset used for the source
// spellings of the value alphabet: ints, floats, strings, chars, true/false/
// undefined, identifiers, unary minus, array literals, map literals with
// identifier keys, calls name(args), immutable(x), error(x).
func ParseExpr(src string) (e Expr, err error) {
	p := &miniParser{s: src}
	defer func() {
		if r := recover(); r != nil {
			e, err = nil, fmt.Errorf("gen.ParseExpr(%q): %v", src, r)
		}
	}()
	e = p.expr()
	p.ws()
	if p.i != len(p.s) {
		panic("trailing input at " + p.s[p.i:])
	}
	return e, nil
}

type miniParser struct {
	s string
	i int
}

func (p *miniParser) ws() {
	for p.i < len(p.s) && (p.s[p.i] == ' ' || p.s[p.i] == '\t') {
		p.i++
	}
}

func (p *miniParser) peek() byte {
	p.ws()
	if p.i < len(p.s) {
		return p.s[p.i]
	}
	return 0
}

func (p *miniParser) eat(c byte) {
	if p.peek() != c {
		panic(fmt.Sprintf("expected %q at %d", c, p.i))
	}
	p.i++
}

func (p *miniParser) expr() Expr {
	c := p.peek()
	switch {
	case c == '-':
		p.i++
		x := p.expr()
		if l, ok := x.(*Lit); ok && (l.Kind == "int" || l.Kind == "float") {
			return &Lit{Src: "-" + l.Src, Kind: l.Kind}
		}
		return &Un{Op: "-", X: x}
	case c == '[':
		p.i++
		a := &ArrayLit{}
		for p.peek() != ']' {
			a.Elems = append(a.Elems, p.expr())
			if p.peek() == ',' {
				p.i++
			}
		}
		p.eat(']')
		return a
	case c == '{':
		p.i++
		m := &MapLit{}
		for p.peek() != '}' {
			k := p.ident()
			p.eat(':')
			m.Keys = append(m.Keys, k)
			m.Vals = append(m.Vals, p.expr())
			if p.peek() == ',' {
				p.i++
			}
		}
		p.eat('}')
		return m
	case c == '"' || c == '`':
		start := p.i
		p.i++
		for p.i < len(p.s) && p.s[p.i] != c {
			if p.s[p.i] == '\\' && c == '"' {
				p.i++
			}
			p.i++
		}
		p.i++
		return &Lit{Src: p.s[start:p.i], Kind: "string"}
	case c == '\'':
		start := p.i
		p.i++
		for p.i < len(p.s) && p.s[p.i] != '\'' {
			if p.s[p.i] == '\\' {
				p.i++
			}
			p.i++
		}
		p.i++
		return &Lit{Src: p.s[start:p.i], Kind: "char"}
	case c >= '0' && c <= '9':
		start := p.i
		for p.i < len(p.s) && (isAlnum(p.s[p.i]) || p.s[p.i] == '.' || p.s[p.i] == '_' ||
			((p.s[p.i] == '+' || p.s[p.i] == '-') && (p.s[p.i-1] == 'e' || p.s[p.i-1] == 'E'))) {
			p.i++
		}
		t := p.s[start:p.i]
		if strings.ContainsAny(t, ".eE") && !strings.HasPrefix(t, "0x") {
			return &Lit{Src: t, Kind: "float"}
		}
		return &Lit{Src: t, Kind: "int"}
	case unicode.IsLetter(rune(c)) || c == '_':
		name := p.ident()
		switch name {
		case "true", "false":
			return &Lit{Src: name, Kind: "bool"}
		case "undefined":
			return Undef()
		}
		if p.peek() == '(' {
			p.i++
			var args []Expr
			for p.peek() != ')' {
				args = append(args, p.expr())
				if p.peek() == ',' {
					p.i++
				}
			}
			p.eat(')')
			switch name {
			case "immutable":
				return &Immutable{X: args[0]}
			case "error":
				return &ErrorE{X: args[0]}
			}
			return &Call{F: I(name), Args: args}
		}
		return I(name)
	}
	panic(fmt.Sprintf("unexpected %q at %d", c, p.i))
}

func isAlnum(c byte) bool {
	return c >= '0' && c <= '9' || c >= 'a' && c <= 'z' || c >= 'A' && c <= 'Z'
}

func (p *miniParser) ident() string {
	p.ws()
	start := p.i
	for p.i < len(p.s) && (isAlnum(p.s[p.i]) || p.s[p.i] == '_') {
		p.i++
	}
	if start == p.i {
		panic("identifier expected")
	}
	return p.s[start:p.i]
}
