package gen

// The alias family (C01): every sequence of at most N statements from a pool
// of array / bytes operations whose results must not share mutable storage
// with their operands (+, copy, append reassigned to the same variable) or
// must share it in the documented Go-like way (slices of mutable arrays),
// interleaved with element writes, so that any hidden aliasing becomes
// visible in the final globals.

func aliasPool() []func() Stmt {
	arr := func(xs ...string) *ArrayLit {
		a := &ArrayLit{}
		for _, x := range xs {
			a.Elems = append(a.Elems, N(x))
		}
		return a
	}
	idx := func(v, i string) Expr { return &Index{X: I(v), I: N(i)} }
	bs := func(s string) Expr { return C(I("bytes"), S(`"`+s+`"`)) }
	return []func() Stmt{
		func() Stmt { return Def("b", B("+", I("a"), arr("4"))) },
		func() Stmt { return Def("c", B("+", I("a"), arr("5"))) },
		func() Stmt { return Def("b", B("+", I("a"), arr())) },
		func() Stmt { return Def("b", &Slice{X: I("a"), Lo: N("0"), Hi: N("2")}) },
		func() Stmt { return Def("c", B("+", I("b"), arr("9"))) },
		func() Stmt { return Def("c", C(I("copy"), I("a"))) },
		func() Stmt { return Set(idx("a", "1"), N("8")) },
		func() Stmt { return Set(idx("b", "0"), N("7")) },
		func() Stmt { return Set(idx("c", "0"), N("6")) },
		func() Stmt { return Def("q", &Slice{X: I("p"), Lo: N("0"), Hi: N("2")}) },
		func() Stmt { return Def("r", B("+", I("q"), bs("X"))) },
		func() Stmt { return Def("r", B("+", I("p"), bs("Y"))) },
		func() Stmt { return Def("s", B("+", I("p"), bs("Z"))) },
		func() Stmt { return Def("d", &Immutable{X: arr("1", "2", "3")}) },
		func() Stmt { return Def("b", &Slice{X: I("d"), Lo: N("0"), Hi: N("2")}) },
		func() Stmt { return Def("b", C(I("append"), I("d"), N("4"))) },
		func() Stmt { return Def("b", B("+", I("d"), &Immutable{X: arr("4")})) },
		// an empty slice of an immutable array, then growth of that slice
		// (z only ever holds slices of the immutable d: append on a slice of a MUTABLE array may or may not write into
		// the shared capacity, "like Go's append", which the reference cannot decide)
		func() Stmt { return Def("z", &Slice{X: I("d"), Lo: N("1"), Hi: N("1")}) },
		func() Stmt { return Def("c", C(I("append"), I("z"), N("9"))) },
		// spread into a variadic parameter: the callee's rest array is a fresh array, never the caller's
		func() Stmt {
			return Def("e", &Call{F: &Paren{X: &FuncLit{Params: []string{"x", "rest"}, VarArgs: true,
				Body: []Stmt{Set(idx("rest", "0"), N("99")), &Return{X: I("rest")}}}}, Args: []Expr{N("0"), I("a")}, Spread: true})
		},
		func() Stmt {
			return Def("e", &Call{F: &Paren{X: &FuncLit{Params: []string{"rest"}, VarArgs: true,
				Body: []Stmt{&Return{X: I("rest")}}}}, Args: []Expr{I("a")}, Spread: true})
		},
		func() Stmt { return Set(idx("e", "0"), N("5")) },
		func() Stmt {
			return Def("e", &Call{F: &Paren{X: &FuncLit{Params: []string{"rest"}, VarArgs: true,
				Body: []Stmt{Set(idx("rest", "1"), N("98")), &Return{X: I("rest")}}}}, Args: []Expr{I("d")}, Spread: true})
		},
	}
}

// NumAliasOps is the pool size.
var NumAliasOps = len(aliasPool())

// Alias generates one program: prelude + 1..max pool statements.
func Alias(max int) func(ch *Chooser) *Program {
	return func(ch *Chooser) *Program {
		pool := aliasPool()
		n := 1 + ch.Choose(max)
		p := &Program{Main: []Stmt{
			Def("a", &ArrayLit{Elems: []Expr{N("1"), N("2"), N("3")}}),
			Def("p", C(I("bytes"), S(`"abcd"`))),
		}}
		for i := 0; i < n; i++ {
			p.Main = append(p.Main, pool[ch.Choose(len(pool))]())
		}
		return p
	}
}
