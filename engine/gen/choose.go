package gen

// Chooser drives a generator function through every path of its decision
// tree (exhaustive enumeration by replay): the generator asks Choose(n) at
// each decision; Enumerate re-runs it with every combination of answers.
type Chooser struct {
	prefix  []int
	Choices []int
	arity   []int
}

// Choose returns a value in [0,n).
func (c *Chooser) Choose(n int) int {
	if n <= 0 {
		panic("gen: Choose with no alternatives")
	}
	k := 0
	if i := len(c.Choices); i < len(c.prefix) {
		k = c.prefix[i]
		if k >= n {
			panic("gen: replayed choice out of range (generator is not deterministic)")
		}
	}
	c.Choices = append(c.Choices, k)
	c.arity = append(c.arity, n)
	return k
}

// Flip is Choose(2)==1.
func (c *Chooser) Flip() bool { return c.Choose(2) == 1 }

// Replay runs gen once with the recorded choices.
func Replay[T any](choices []int, gen func(*Chooser) T) T {
	c := &Chooser{prefix: choices}
	return gen(c)
}

// Enumerate calls visit for every leaf of gen's decision tree, in
// lexicographic order of choice vectors. visit returning false stops.
// It returns the number of leaves visited.
func Enumerate[T any](gen func(*Chooser) T, visit func(t T, choices []int) bool) int64 {
	var prefix []int
	var n int64
	for {
		c := &Chooser{prefix: prefix}
		t := gen(c)
		n++
		if !visit(t, c.Choices) {
			return n
		}
		i := len(c.Choices) - 1
		for i >= 0 && c.Choices[i]+1 >= c.arity[i] {
			i--
		}
		if i < 0 {
			return n
		}
		prefix = append(append([]int{}, c.Choices[:i]...), c.Choices[i]+1)
	}
}

// Shards returns the distinct choice prefixes of length <= depth (one per
// subtree of the decision tree cut at that depth), in enumeration order.
func Shards[T any](gen func(*Chooser) T, depth int) [][]int {
	var out [][]int
	var prefix []int
	for {
		c := &Chooser{prefix: prefix}
		gen(c)
		n := len(c.Choices)
		if n > depth {
			n = depth
		}
		out = append(out, append([]int{}, c.Choices[:n]...))
		i := n - 1
		for i >= 0 && c.Choices[i]+1 >= c.arity[i] {
			i--
		}
		if i < 0 {
			return out
		}
		prefix = append(append([]int{}, c.Choices[:i]...), c.Choices[i]+1)
	}
}

// EnumerateShard enumerates the leaves below one shard prefix.
func EnumerateShard[T any](gen func(*Chooser) T, shard []int, visit func(t T, choices []int) bool) int64 {
	prefix := append([]int{}, shard...)
	var n int64
	for {
		c := &Chooser{prefix: prefix}
		t := gen(c)
		n++
		if !visit(t, c.Choices) {
			return n
		}
		i := len(c.Choices) - 1
		for i >= len(shard) && c.Choices[i]+1 >= c.arity[i] {
			i--
		}
		if i < len(shard) {
			return n
		}
		prefix = append(append([]int{}, c.Choices[:i]...), c.Choices[i]+1)
	}
}
