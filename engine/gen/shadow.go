package gen

// The shadow family: resolution order inside one block. An outer variable x is read, assigned and shadowed (:=) in
// every order of up to three statements, inside every kind of block (if, else, loop body, function body, nested
// block, module body is reached through the placements of other families). A `:=` of a name that was only READ
// before in the same block is a new variable from that point on; the reads before it saw the outer one.

var shadowWrappers = []string{"if", "else", "loop", "func", "nested-if", "func-in-if"}

func shadowStmt(i int) Stmt {
	switch i {
	case 0:
		return Def("y", B("+", I("x"), N("1")))
	case 1:
		return Def("x", N("7"))
	case 2:
		return Set(I("x"), B("+", I("x"), N("5")))
	case 3:
		return Set(I("out"), B("+", B("*", I("out"), N("10")), I("x")))
	case 4:
		return Def("x", B("*", I("x"), N("2")))
	}
	return nil
}

const shadowStmts = 5

// Shadow generates one program per chooser path.
func Shadow(ch *Chooser) *Program {
	w := shadowWrappers[ch.Choose(len(shadowWrappers))]
	n := 1 + ch.Choose(3)
	var body []Stmt
	for i := 0; i < n; i++ {
		body = append(body, shadowStmt(ch.Choose(shadowStmts)))
	}
	var wrapped []Stmt
	switch w {
	case "if":
		wrapped = []Stmt{&If{Cond: True(), Then: body}}
	case "else":
		wrapped = []Stmt{&If{Cond: False(), Then: []Stmt{}, Else: body}}
	case "loop":
		wrapped = []Stmt{&For{Init: Def("once", True()), Cond: I("once"), Post: Set(I("once"), False()), Body: body}}
	case "func":
		wrapped = []Stmt{Def("f", &FuncLit{Body: body}), &ExprStmt{X: C(I("f"))}, Set(I("f"), Undef())}
	case "nested-if":
		wrapped = []Stmt{&If{Cond: True(), Then: []Stmt{Def("z", I("x")), &If{Cond: True(), Then: body}, Set(I("out"), B("+", I("out"), I("z")))}}}
	case "func-in-if":
		wrapped = []Stmt{&If{Cond: True(), Then: []Stmt{Def("g", &FuncLit{Body: body}), &ExprStmt{X: C(I("g"))}}}}
	}
	main := append([]Stmt{Def("x", N("10")), Def("out", N("0"))}, wrapped...)
	main = append(main, Set(I("out"), B("+", B("*", I("out"), N("100")), I("x"))))
	return &Program{Main: main}
}
