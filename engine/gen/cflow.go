package gen

// The cflow family: every statement sequence of at most Budget statements
// (nesting counted) over return/break/continue x the loop forms x if/else x
// && || ?: x compound assignment, placed in main, a function, a closure (so
// that the same body runs on globals, locals and free variables) and a source
// module. Used by C02, C03, C12, C14.

// CflowCfg bounds the family.
type CflowCfg struct {
	Budget   int  // total number of statements in the body
	MaxDepth int  // nesting depth of compound statements
	Rich     bool // larger expression/condition pools
}

type cfctx struct {
	ch     *Chooser
	cfg    CflowCfg
	budget int
	inFunc bool
}

func (g *cfctx) expr() Expr {
	pool := []func() Expr{
		func() Expr { return I("x") },
		func() Expr { return N("1") },
		func() Expr { return B("+", I("x"), N("1")) },
		func() Expr { return B("&&", I("p"), I("q")) },
		func() Expr { return &Cond{C: I("p"), T: I("x"), F: N("7")} },
	}
	if g.cfg.Rich {
		pool = append(pool,
			func() Expr { return B("||", I("q"), I("x")) },
			func() Expr { return &Index{X: &ArrayLit{Elems: []Expr{I("x"), N("5")}}, I: N("1")} },
			func() Expr { return &Un{Op: "!", X: I("p")} },
		)
	}
	return pool[g.ch.Choose(len(pool))]()
}

func (g *cfctx) cond() Expr {
	pool := []func() Expr{
		func() Expr { return I("p") },
		func() Expr { return B("<", I("x"), N("2")) },
		func() Expr { return B("||", I("p"), I("q")) },
	}
	if g.cfg.Rich {
		pool = append(pool,
			func() Expr { return &Un{Op: "!", X: I("q")} },
			func() Expr { return B("&&", I("q"), B("<", I("x"), N("3"))) },
		)
	}
	return pool[g.ch.Choose(len(pool))]()
}

// body generates a statement list; it stops by choice or when the budget is spent.
func (g *cfctx) body(depth int, inLoop bool) []Stmt {
	var out []Stmt
	for g.budget > 0 {
		kinds := []string{"stop", "assign", "addassign"}
		if g.inFunc {
			kinds = append(kinds, "return", "returnv")
		}
		if inLoop {
			kinds = append(kinds, "break", "continue")
		}
		if depth < g.cfg.MaxDepth && g.budget >= 2 {
			kinds = append(kinds, "if", "ifelse", "forc", "for3", "forever", "forin")
		}
		k := kinds[g.ch.Choose(len(kinds))]
		if k == "stop" {
			break
		}
		g.budget--
		switch k {
		case "assign":
			out = append(out, Set(I("x"), g.expr()))
		case "addassign":
			out = append(out, &Assign{LHS: I("x"), Op: "+=", RHS: N("1")})
		case "return":
			out = append(out, &Return{})
		case "returnv":
			out = append(out, &Return{X: g.expr()})
		case "break":
			out = append(out, &Break{})
		case "continue":
			out = append(out, &Continue{})
		case "if":
			c := g.cond()
			out = append(out, &If{Cond: c, Then: g.body(depth+1, inLoop)})
		case "ifelse":
			c := g.cond()
			th := g.body(depth+1, inLoop)
			el := g.body(depth+1, inLoop)
			if el == nil {
				el = []Stmt{}
			}
			out = append(out, &If{Cond: c, Then: th, Else: el})
		case "forc":
			c := g.cond()
			out = append(out, &For{Cond: c, Body: g.body(depth+1, true)})
		case "for3":
			out = append(out, &For{Init: Def("i", N("0")), Cond: B("<", I("i"), N("2")),
				Post: &IncDec{X: I("i"), Op: "++"}, Body: g.body(depth+1, true)})
		case "forever":
			out = append(out, &For{Body: g.body(depth+1, true)})
		case "forin":
			out = append(out, &ForIn{Key: "k", Val: "v", X: &ArrayLit{Elems: []Expr{N("1"), N("2")}}, Body: g.body(depth+1, true)})
		}
	}
	return out
}

// Cflow placements.
// "func-in-loop" / "func-in-func-loop": the function literal holding the body is created and called inside a loop
// of the enclosing scope (global-level resp. inside another function) that has its own continue and break, so the
// body's loops and the enclosing loop coexist in the compiler.
var CflowPlacements = []string{"func", "main", "closure", "module", "main-returns", "func-in-loop", "func-in-func-loop"}

// CflowProgram is one generated element.
type CflowProgram struct {
	Placement string
	Prog      *Program
}

// Cflow generates one program for the chooser's path. Inputs are the host
// variables P and Q (booleans).
func Cflow(cfg CflowCfg) func(ch *Chooser) CflowProgram {
	return func(ch *Chooser) CflowProgram {
		pl := CflowPlacements[ch.Choose(len(CflowPlacements))]
		// "main-returns": return statements are generated although the body is placed at top level:
		// every such program must be rejected ("return not allowed outside function")
		g := &cfctx{ch: ch, cfg: cfg, budget: cfg.Budget, inFunc: pl != "main"}
		body := g.body(0, false)
		p := &Program{Inputs: []string{"P", "Q"}}
		switch pl {
		case "main", "main-returns":
			p.Main = append([]Stmt{Def("x", N("0")), Def("p", I("P")), Def("q", I("Q"))}, body...)
			p.Main = append(p.Main, Def("out", I("x")))
		case "func":
			fb := append([]Stmt{Def("x", N("0"))}, body...)
			fb = append(fb, &Return{X: I("x")})
			p.Main = []Stmt{
				Def("f", &FuncLit{Params: []string{"p", "q"}, Body: fb}),
				Def("out", C(I("f"), I("P"), I("Q"))),
			}
		case "closure":
			gb := append(append([]Stmt{}, body...), &Return{X: I("x")})
			mk := &FuncLit{Params: []string{"p", "q"}, Body: []Stmt{
				Def("x", N("0")),
				Def("g", &FuncLit{Body: gb}),
				Def("r", C(I("g"))),
				&Return{X: &ArrayLit{Elems: []Expr{I("r"), I("x")}}},
			}}
			p.Main = []Stmt{Def("mk", mk), Def("out", C(I("mk"), I("P"), I("Q")))}
		case "func-in-loop", "func-in-func-loop":
			fb := append([]Stmt{Def("x", N("0"))}, body...)
			fb = append(fb, &Return{X: I("x")})
			loop := &For{Init: Def("t", N("0")), Cond: B("<", I("t"), N("3")), Post: &IncDec{X: I("t"), Op: "++"}, Body: []Stmt{
				Def("f", &FuncLit{Params: []string{"p", "q"}, Body: fb}),
				Set(I("r"), B("+", I("r"), &ArrayLit{Elems: []Expr{C(I("f"), I("pp"), I("qq"))}})),
				&If{Cond: B("==", I("t"), N("0")), Then: []Stmt{&Continue{}}},
				&Break{},
			}}
			if pl == "func-in-loop" {
				p.Main = []Stmt{Def("pp", I("P")), Def("qq", I("Q")), Def("r", &ArrayLit{}), loop, Def("out", I("r"))}
			} else {
				outer := &FuncLit{Params: []string{"pp", "qq"}, Body: []Stmt{Def("r", &ArrayLit{}), loop, &Return{X: I("r")}}}
				p.Main = []Stmt{Def("h", outer), Def("out", C(I("h"), I("P"), I("Q")))}
			}
		case "module":
			mb := append([]Stmt{Def("x", N("0")), Def("p", True()), Def("q", False())}, body...)
			mb = append(mb, &Export{X: I("x")})
			p.Modules = map[string][]Stmt{"m": mb}
			p.Main = []Stmt{Def("out", &Import{Name: "m"})}
		}
		return CflowProgram{Placement: pl, Prog: p}
	}
}
