package gen

// The stmt family: statement sequences of at most Budget statements over two
// variables a, b and small int atoms: := (incl. shadowing in inner blocks),
// =, all 11 compound assignments, ++/--, if / else-if / else with init, the
// three for forms, for-in over array / string / bytes / undefined / one-key
// map / a variable with the _ / v / k,v binding forms, break, continue and
// bare blocks; placed at top level (variables are globals) or inside a
// function (variables are locals). Used by C01, C06, C11.

// StmtCfg bounds the family.
type StmtCfg struct {
	Budget int
	Lean   bool // reduced pools (used to reach one more statement in the thorough tier)
}

type sctx struct {
	ch     *Chooser
	lean   bool
	budget int
	vars   []string // visible variable names
	depth  int
	inFunc bool
}

var compoundOps = []string{"+=", "-=", "*=", "/=", "%=", "&=", "|=", "^=", "&^=", "<<=", ">>="}

func (g *sctx) atom() Expr {
	if g.lean {
		if g.ch.Flip() {
			return g.v()
		}
		return N("1")
	}
	n := 3 + len(g.vars)
	k := g.ch.Choose(n)
	if k < 3 {
		return N([]string{"0", "1", "2"}[k])
	}
	return I(g.vars[k-3])
}

func (g *sctx) v() *Ident { return I(g.vars[g.ch.Choose(len(g.vars))]) }

func (g *sctx) rhs() Expr {
	if g.lean {
		switch g.ch.Choose(3) {
		case 0:
			return g.atom()
		case 1:
			return B("+", g.v(), N("1"))
		default:
			return &ArrayLit{Elems: []Expr{g.v(), N("7")}}
		}
	}
	switch g.ch.Choose(6) {
	case 0:
		return g.atom()
	case 1:
		return B("+", g.v(), g.atom())
	case 2:
		return B("<", g.v(), g.atom())
	case 3:
		return &ArrayLit{Elems: []Expr{g.v(), N("7")}}
	case 4:
		return S(`"s"`)
	default:
		return B("*", g.v(), N("2"))
	}
}

func (g *sctx) cond() Expr {
	if g.lean {
		if g.ch.Flip() {
			return g.v()
		}
		return B("<", g.v(), N("2"))
	}
	switch g.ch.Choose(3) {
	case 0:
		return B("<", g.v(), N("2"))
	case 1:
		return g.v()
	default:
		return B("==", g.v(), g.atom())
	}
}

func (g *sctx) iterable() Expr {
	if g.lean {
		switch g.ch.Choose(3) {
		case 0:
			return &ArrayLit{Elems: []Expr{N("3"), N("4")}}
		case 1:
			return S(`"hé"`)
		default:
			return g.v()
		}
	}
	switch g.ch.Choose(6) {
	case 0:
		return &ArrayLit{Elems: []Expr{N("3"), N("4")}}
	case 1:
		return S(`"hé"`)
	case 2:
		return C(I("bytes"), S(`"xy"`))
	case 3:
		return Undef()
	case 4:
		return &MapLit{Keys: []string{"k"}, Vals: []Expr{N("5")}}
	default:
		return g.v()
	}
}

func (g *sctx) sub(inLoop bool, extra ...string) []Stmt {
	saved := g.vars
	g.vars = append(append([]string{}, g.vars...), extra...)
	g.depth++
	b := g.body(inLoop)
	g.depth--
	g.vars = saved
	return b
}

func (g *sctx) body(inLoop bool) []Stmt {
	var out []Stmt
	defined := map[string]bool{}
	for g.budget > 0 {
		kinds := []string{"stop", "assign", "compound", "incdec"}
		var defNames []string
		if !defined["c"] {
			defNames = append(defNames, "c")
		}
		if g.depth > 0 && !defined["a"] {
			defNames = append(defNames, "a")
		}
		if len(defNames) > 0 {
			kinds = append(kinds, "define")
		}
		if inLoop {
			kinds = append(kinds, "break", "continue")
		}
		if g.depth < 2 && g.budget >= 2 {
			kinds = append(kinds, "if", "ifelse", "for3", "forc", "forin")
			if !g.lean {
				kinds = append(kinds, "ifinit", "elseif")
			}
		}
		k := kinds[g.ch.Choose(len(kinds))]
		if k == "stop" {
			break
		}
		g.budget--
		switch k {
		case "assign":
			out = append(out, Set(g.v(), g.rhs()))
		case "compound":
			ops := compoundOps
			if g.lean {
				ops = []string{"+=", "/=", "<<="}
			}
			op := ops[g.ch.Choose(len(ops))]
			out = append(out, &Assign{LHS: g.v(), Op: op, RHS: g.atom()})
		case "incdec":
			out = append(out, &IncDec{X: g.v(), Op: []string{"++", "--"}[g.ch.Choose(2)]})
		case "define":
			// a fresh name, or (in an inner block) a shadowing re-definition of a / b
			n := defNames[g.ch.Choose(len(defNames))]
			e := g.rhs()
			defined[n] = true
			out = append(out, Def(n, e))
			has := false
			for _, v := range g.vars {
				if v == n {
					has = true
				}
			}
			if !has {
				g.vars = append(append([]string{}, g.vars...), n)
			}
		case "break":
			out = append(out, &Break{})
		case "continue":
			out = append(out, &Continue{})
		case "if":
			c := g.cond()
			out = append(out, &If{Cond: c, Then: g.sub(inLoop)})
		case "ifelse":
			c := g.cond()
			th := g.sub(inLoop)
			el := g.sub(inLoop)
			if el == nil {
				el = []Stmt{}
			}
			out = append(out, &If{Cond: c, Then: th, Else: el})
		case "ifinit":
			init := Def("t", g.atom())
			saved := g.vars
			g.vars = append(append([]string{}, g.vars...), "t")
			c := g.cond()
			th := g.sub(inLoop)
			g.vars = saved
			out = append(out, &If{Init: init, Cond: c, Then: th})
		case "elseif":
			c1 := g.cond()
			th := g.sub(inLoop)
			c2 := g.cond()
			th2 := g.sub(inLoop)
			el := g.sub(inLoop)
			if el == nil {
				el = []Stmt{}
			}
			out = append(out, &If{Cond: c1, Then: th, Else: []Stmt{&If{Cond: c2, Then: th2, Else: el}}})
		case "for3":
			out = append(out, &For{Init: Def("i", N("0")), Cond: B("<", I("i"), N("2")),
				Post: &IncDec{X: I("i"), Op: "++"}, Body: g.sub(true, "i")})
		case "forc":
			c := g.cond()
			out = append(out, &For{Cond: c, Body: g.sub(true)})
		case "forin":
			it := g.iterable()
			switch g.ch.Choose(3) {
			case 0:
				out = append(out, &ForIn{Key: "_", Val: "_", X: it, Body: g.sub(true)})
			case 1:
				out = append(out, &ForIn{Key: "v", X: it, Body: g.sub(true, "v")})
			default:
				out = append(out, &ForIn{Key: "k", Val: "v", X: it, Body: g.sub(true, "k", "v")})
			}
		case "block":
			out = append(out, &Block{Body: g.sub(inLoop)})
		}
	}
	return out
}

// Stmts generates one program per chooser path.
func Stmts(cfg StmtCfg) func(ch *Chooser) *Program {
	return func(ch *Chooser) *Program {
		inFunc := ch.Flip()
		g := &sctx{ch: ch, lean: cfg.Lean, budget: cfg.Budget, vars: []string{"a", "b"}, inFunc: inFunc}
		body := g.body(false)
		pre := []Stmt{Def("a", N("0")), Def("b", N("1"))}
		if !inFunc {
			return &Program{Main: append(pre, body...)}
		}
		fb := append(pre, body...)
		fb = append(fb, &Return{X: &ArrayLit{Elems: []Expr{I("a"), I("b")}}})
		return &Program{Main: []Stmt{Def("f", &FuncLit{Body: fb}), Def("out", C(I("f")))}}
	}
}
