package gen

// The func family: function literals with 0-2 parameters (optionally
// variadic), called with 0-3 arguments or a spread array; bodies of at most
// Budget statements over locals, parameters, a global, nested closures that
// capture parameter / local / outer local / global (before and after
// assignment, inside loops), recursion through the defining variable, and
// return in every position. Used by C01, C02, C03, C11, C12.

// FuncCfg bounds the family.
type FuncCfg struct {
	Budget int
}

type fnScope struct {
	vars   []string // visible variables that hold plain values
	funcs  []string // visible variables that hold functions (callable with 0 args)
	locals int      // locals defined so far in this function
}

type fctx struct {
	ch     *Chooser
	budget int
	scopes []*fnScope // one per enclosing function literal
	global bool       // a global "g" exists
}

func (g *fctx) cur() *fnScope { return g.scopes[len(g.scopes)-1] }

func (g *fctx) visibleVars() []string {
	var out []string
	if g.global {
		out = append(out, "g")
	}
	for _, s := range g.scopes {
		out = append(out, s.vars...)
	}
	return out
}

func (g *fctx) visibleFuncs() []string {
	var out []string
	for _, s := range g.scopes {
		out = append(out, s.funcs...)
	}
	return out
}

func (g *fctx) pickVar() Expr {
	vs := g.visibleVars()
	return I(vs[g.ch.Choose(len(vs))])
}

func (g *fctx) expr() Expr {
	vs := g.visibleVars()
	fs := g.visibleFuncs()
	kinds := []string{"one"}
	if len(vs) > 0 {
		kinds = append(kinds, "var", "var+1", "arr")
	}
	if len(fs) > 0 {
		kinds = append(kinds, "call")
	}
	switch kinds[g.ch.Choose(len(kinds))] {
	case "one":
		return N("1")
	case "var":
		return g.pickVar()
	case "var+1":
		return B("+", g.pickVar(), N("1"))
	case "arr":
		return &ArrayLit{Elems: []Expr{g.pickVar(), N("5")}}
	case "call":
		return C(I(fs[g.ch.Choose(len(fs))]))
	}
	return N("1")
}

var localNames = []string{"l", "m", "n"}
var innerFuncNames = []string{"h", "k"}

func (g *fctx) body(depth int, inLoop bool) []Stmt {
	var out []Stmt
	for g.budget > 0 {
		sc := g.cur()
		kinds := []string{"stop", "return"}
		if sc.locals < len(localNames) {
			kinds = append(kinds, "define")
		}
		if len(g.visibleVars()) > 0 {
			kinds = append(kinds, "assign", "inc")
		}
		if len(g.scopes) <= 2 && len(sc.funcs) < len(innerFuncNames) && g.budget >= 2 {
			kinds = append(kinds, "closure")
		}
		if depth < 1 && g.budget >= 2 {
			kinds = append(kinds, "if", "for3")
		}
		if len(g.visibleFuncs()) > 0 {
			kinds = append(kinds, "callstmt")
		}
		k := kinds[g.ch.Choose(len(kinds))]
		if k == "stop" {
			break
		}
		g.budget--
		switch k {
		case "return":
			out = append(out, &Return{X: g.expr()})
		case "define":
			name := localNames[sc.locals] + suffix(len(g.scopes))
			e := g.expr()
			sc.locals++
			sc.vars = append(sc.vars, name)
			out = append(out, Def(name, e))
		case "assign":
			v := g.pickVar()
			out = append(out, Set(v, g.expr()))
		case "inc":
			out = append(out, &Assign{LHS: g.pickVar(), Op: "+=", RHS: N("1")})
		case "closure":
			name := innerFuncNames[len(sc.funcs)] + suffix(len(g.scopes))
			// the name is visible inside its own literal (recursion)
			sc.funcs = append(sc.funcs, name)
			inner := &fnScope{}
			g.scopes = append(g.scopes, inner)
			b := g.body(0, false)
			g.scopes = g.scopes[:len(g.scopes)-1]
			out = append(out, Def(name, &FuncLit{Body: b}))
		case "if":
			c := B("<", g.pickVarOrOne(), N("2"))
			save := g.snapshot()
			th := g.body(depth+1, inLoop)
			g.restore(save)
			out = append(out, &If{Cond: c, Then: th})
		case "for3":
			save := g.snapshot()
			b := g.body(depth+1, true)
			g.restore(save)
			out = append(out, &For{Init: Def("i"+suffix(len(g.scopes)), N("0")),
				Cond: B("<", I("i"+suffix(len(g.scopes))), N("2")),
				Post: &IncDec{X: I("i" + suffix(len(g.scopes))), Op: "++"}, Body: b})
		case "callstmt":
			fs := g.visibleFuncs()
			out = append(out, &ExprStmt{X: C(I(fs[g.ch.Choose(len(fs))]))})
		}
	}
	return out
}

func (g *fctx) pickVarOrOne() Expr {
	if len(g.visibleVars()) == 0 {
		return N("1")
	}
	return g.pickVar()
}

type fsnap struct {
	vars, funcs, locals int
}

// names defined inside a block are not visible after it; locals counter keeps growing (fresh names)
func (g *fctx) snapshot() fsnap {
	s := g.cur()
	return fsnap{len(s.vars), len(s.funcs), s.locals}
}
func (g *fctx) restore(p fsnap) {
	s := g.cur()
	s.vars = s.vars[:p.vars]
	s.funcs = s.funcs[:p.funcs]
}

func suffix(level int) string {
	if level <= 1 {
		return ""
	}
	return string(rune('0' + level))
}

// Funcs generates one program per chooser path.
func Funcs(cfg FuncCfg) func(ch *Chooser) *Program {
	return func(ch *Chooser) *Program {
		g := &fctx{ch: ch, budget: cfg.Budget, global: true}
		// signature
		nparams := ch.Choose(3)
		variadic := nparams > 0 && ch.Flip()
		params := []string{"a", "b"}[:nparams]
		sc := &fnScope{}
		for i, p := range params {
			_ = i
			sc.vars = append(sc.vars, p)
		}
		sc.funcs = append(sc.funcs, "f") // recursion through the defining variable — but f needs arguments:
		sc.funcs = sc.funcs[:0]            // keep zero-arg call sites well-formed: f is called explicitly below
		g.scopes = []*fnScope{sc}
		body := g.body(0, false)
		// call shape
		callKinds := []string{"exact", "fewer", "more", "spread"}
		ck := callKinds[ch.Choose(len(callKinds))]
		var call *Call
		argv := []Expr{N("1"), N("2"), N("3")}
		switch ck {
		case "exact":
			call = C(I("f"), argv[:nparams]...)
		case "fewer":
			n := nparams - 1
			if n < 0 {
				n = 0
			}
			call = C(I("f"), argv[:n]...)
		case "more":
			call = C(I("f"), argv[:nparams+1]...)
		case "spread":
			call = &Call{F: I("f"), Args: []Expr{&ArrayLit{Elems: argv[:nparams]}}, Spread: true}
		}
		return &Program{Main: []Stmt{
			Def("g", N("10")),
			Def("f", &FuncLit{Params: params, VarArgs: variadic, Body: body}),
			Def("out", call),
		}}
	}
}
