package gen

import "fmt"

// The limits family: boundary-sized programs around the one-byte operands of
// the VM (locals, call arguments, captured variables, selector chains). A
// program beyond a limit must either be rejected at compile time or behave
// correctly - never silently wrong.

// LimitKinds lists the generated shapes.
var LimitKinds = []string{"locals", "params", "free", "free-returned", "free-nested", "selectors", "array-literal", "long-if", "long-loop", "long-logical", "consts-closure", "globals-selstore", "map-literal", "consts-dup", "spread-args", "free-refs", "globals"}

// LimitSizes are the boundary sizes per kind.
func LimitSizes(kind string) []int {
	switch kind {
	case "locals":
		return []int{254, 255, 256, 257, 258, 300, 513}
	case "params":
		return []int{253, 254, 255, 256, 257}
	case "spread-args":
		// n written arguments, the last one spread
		return []int{254, 255, 256, 257}
	case "globals":
		// n global variables in total (the documented maximum is GlobalsSize - 1 = 1023; sizes up to it must compile)
		return []int{1000, 1022, 1023, 1024}
	case "free-refs":
		// n REFERENCES to three captured variables: no limit is exceeded, the program must compile and run
		return []int{255, 256, 257, 300}
	case "free", "free-returned", "free-nested":
		return []int{254, 255, 256, 257}
	case "long-if", "long-loop", "long-logical":
		// number of filler statements (9 bytes of code each: 7000 stays below offset 65536, 9000 goes beyond): jump operands below and beyond 16 bits
		return []int{7000, 9000}
	case "consts-dup":
		// a duplicated constant first (de-duplication shifts every later index by one), then n distinct ones
		return []int{250, 255, 256, 257, 300, 600}
	case "consts-closure", "globals-selstore":
		// two-byte operands (constant index of CLOSURE / CONST, global index of the selector store) below and beyond one byte
		return []int{250, 255, 256, 257, 300, 600}
	case "selectors":
		return []int{254, 255, 256, 257}
	case "array-literal":
		return []int{255, 256, 257, 1000, 65535, 65536}
	case "map-literal":
		// the MAP operand counts keys and values: it passes one byte at 128 pairs and two bytes at 32768 pairs
		return []int{127, 128, 129, 300, 32767, 32768}
	}
	return nil
}

// Limits builds the program of the given kind and size. The result `out`
// depends on the first and the last element, so that wrap-around aliasing
// (element n overwriting element 0) changes it.
func Limits(kind string, n int) *Program {
	v := func(i int) string { return fmt.Sprintf("v%d", i) }
	switch kind {
	case "locals":
		// f := func() { v0 := 0; v1 := 1; ...; return [v0, v1, v(n-2), v(n-1)] }
		var body []Stmt
		for i := 0; i < n; i++ {
			body = append(body, Def(v(i), N(fmt.Sprint(i))))
		}
		body = append(body, &Return{X: &ArrayLit{Elems: []Expr{I(v(0)), I(v(1)), I(v(n - 2)), I(v(n - 1))}}})
		return &Program{Main: []Stmt{Def("f", &FuncLit{Body: body}), Def("out", C(I("f")))}}
	case "params":
		var ps []string
		var args []Expr
		for i := 0; i < n; i++ {
			ps = append(ps, v(i))
			args = append(args, N(fmt.Sprint(i)))
		}
		body := []Stmt{&Return{X: &ArrayLit{Elems: []Expr{I(v(0)), I(v(1)), I(v(n - 2)), I(v(n - 1))}}}}
		return &Program{Main: []Stmt{Def("f", &FuncLit{Params: ps, Body: body}), Def("out", C(I("f"), args...))}}
	case "globals":
		var main []Stmt
		for i := 0; i < n-1; i++ {
			main = append(main, Def(v(i), N(fmt.Sprint(i%7))))
		}
		main = append(main, Def("out", &ArrayLit{Elems: []Expr{I(v(0)), I(v(n - 3)), I(v(n - 2))}}))
		return &Program{Main: main}
	case "free-refs":
		var sum Expr = N("0")
		names := []string{"p", "q", "r"}
		for i := 0; i < n; i++ {
			sum = B("+", sum, I(names[i%3]))
		}
		body := []Stmt{Def("p", N("1")), Def("q", N("2")), Def("r", N("3")), &Return{X: &FuncLit{Body: []Stmt{&Return{X: sum}}}}}
		return &Program{Main: []Stmt{Def("f", &FuncLit{Body: body}), Def("out", C(C(I("f")))), Set(I("f"), Undef())}}
	case "spread-args":
		var args []Expr
		for i := 0; i < n-1; i++ {
			args = append(args, N(fmt.Sprint(i)))
		}
		args = append(args, I("xs"))
		body := []Stmt{&Return{X: &ArrayLit{Elems: []Expr{C(I("len"), I("r")), &Index{X: I("r"), I: N("0")}, &Index{X: I("r"), I: N(fmt.Sprint(n - 2))}}}}}
		return &Program{Main: []Stmt{Def("xs", &ArrayLit{Elems: []Expr{N("7"), N("8")}}),
			Def("f", &FuncLit{Params: []string{"r"}, VarArgs: true, Body: body}),
			Def("out", &Call{F: I("f"), Args: args, Spread: true}), Set(I("f"), Undef())}}
	case "free":
		// outer defines n locals; inner closure captures all of them
		var body []Stmt
		var sum Expr = N("0")
		for i := 0; i < n; i++ {
			body = append(body, Def(v(i), N(fmt.Sprint(i))))
		}
		var elems []Expr
		for i := 0; i < n; i++ {
			elems = append(elems, I(v(i)))
		}
		_ = sum
		inner := &FuncLit{Body: []Stmt{Def("all", &ArrayLit{Elems: elems}),
			&Return{X: &ArrayLit{Elems: []Expr{&Index{X: I("all"), I: N("0")}, &Index{X: I("all"), I: N("1")},
				&Index{X: I("all"), I: N(fmt.Sprint(n - 2))}, &Index{X: I("all"), I: N(fmt.Sprint(n - 1))}}}}}}
		body = append(body, Def("g", inner), &Return{X: C(I("g"))})
		return &Program{Main: []Stmt{Def("f", &FuncLit{Body: body}), Def("out", C(I("f")))}}
	case "free-returned", "free-nested":
		// the closure is returned directly (not stored in a further local of the enclosing function), so the
		// enclosing function has exactly n locals and the closure exactly n captured variables; "free-nested"
		// captures them a second time through an intermediate closure (cells taken from free variables)
		var body []Stmt
		var elems []Expr
		for i := 0; i < n; i++ {
			body = append(body, Def(v(i), N(fmt.Sprint(i))))
			elems = append(elems, I(v(i)))
		}
		pick := &Return{X: &ArrayLit{Elems: []Expr{&Index{X: &ArrayLit{Elems: elems}, I: N("0")}, I(v(1)), I(v(n - 2)), I(v(n - 1))}}}
		var inner Expr = &FuncLit{Body: []Stmt{pick}}
		call := C(C(I("f")))
		if kind == "free-nested" {
			inner = &FuncLit{Body: []Stmt{&Return{X: inner}}}
			call = C(call)
		}
		body = append(body, &Return{X: inner})
		return &Program{Main: []Stmt{Def("f", &FuncLit{Body: body}), Def("out", call)}}
	case "long-if", "long-loop", "long-logical":
		// one function whose code is longer than 64 KiB with jumps whose targets lie beyond offset 65535:
		// forward over the filler (if / && / ||), and a loop that starts after the filler (backward jump)
		filler := func() []Stmt {
			var out []Stmt
			for i := 0; i < n; i++ {
				out = append(out, Set(I("x"), B("+", I("x"), N("1"))))
			}
			return out
		}
		var body []Stmt
		body = append(body, Def("x", N("0")))
		switch kind {
		case "long-if":
			body = append(body, &If{Cond: I("c"), Then: filler(), Else: []Stmt{Set(I("x"), N("-5"))}},
				&If{Cond: &Un{Op: "!", X: I("c")}, Then: filler()})
		case "long-loop":
			body = append(body, filler()...)
			body = append(body, &For{Init: Def("i", N("0")), Cond: B("<", I("i"), N("3")), Post: &IncDec{X: I("i"), Op: "++"},
				Body: []Stmt{&If{Cond: B("==", I("i"), N("1")), Then: []Stmt{&Continue{}}}, Set(I("x"), B("+", I("x"), N("100")))}})
		case "long-logical":
			body = append(body, filler()...)
			body = append(body, Def("y", B("||", B("&&", I("c"), B(">", I("x"), N("1"))), N("7"))), Set(I("x"), &ArrayLit{Elems: []Expr{I("x"), I("y")}}))
		}
		body = append(body, &Return{X: I("x")})
		return &Program{Main: []Stmt{Def("f", &FuncLit{Params: []string{"c"}, Body: body}),
			Def("out", &ArrayLit{Elems: []Expr{C(I("f"), True()), C(I("f"), False())}}), Set(I("f"), Undef())}}
	case "consts-dup":
		main := []Stmt{Def("d0", S(`"dup"`)), Def("d1", S(`"dup"`))}
		var elems []Expr
		for i := 0; i < n; i++ {
			main = append(main, Def(v(i), N(fmt.Sprint(1000+i))))
		}
		for _, i := range []int{0, 1, 252, 253, 254, 255, 256, 257, n - 2, n - 1} {
			if i >= 0 && i < n {
				elems = append(elems, I(v(i)))
			}
		}
		// the same references from inside a function (its CONST operands are rewritten too)
		body := []Stmt{&Return{X: &ArrayLit{Elems: []Expr{N(fmt.Sprint(1000 + n - 1)), N(fmt.Sprint(1000 + n/2)), N("1000"), S(`"dup"`)}}}}
		main = append(main, Def("f", &FuncLit{Body: body}), Def("out", &ArrayLit{Elems: append(elems, C(I("f")))}), Set(I("f"), Undef()))
		return &Program{Main: main}
	case "consts-closure":
		// n distinct constants, then (inside a function) a closure that captures a local: its CLOSURE operand is >= n
		var main []Stmt
		var sum Expr = N("0")
		for i := 0; i < n; i++ {
			main = append(main, Def(v(i), S(fmt.Sprintf(`"c%d"`, i))))
		}
		_ = sum
		body := []Stmt{Def("x", N("7")), Def("g", &FuncLit{Body: []Stmt{&Return{X: B("+", I("x"), N("1234567"))}}}), &Return{X: C(I("g"))}}
		main = append(main, Def("f", &FuncLit{Body: body}), Def("out", &ArrayLit{Elems: []Expr{C(I("f")), I(v(0)), I(v(n - 1))}}), Set(I("f"), Undef()))
		return &Program{Main: main}
	case "globals-selstore":
		// n globals, then index / selector assignment through the last one and reads of its neighbours
		var main []Stmt
		for i := 0; i < n-1; i++ {
			main = append(main, Def(v(i), &ArrayLit{Elems: []Expr{N(fmt.Sprint(i))}}))
		}
		main = append(main, Def("m", &MapLit{Keys: []string{"k"}, Vals: []Expr{N("0")}}), Def("a", &ArrayLit{Elems: []Expr{N("0")}}),
			Set(&Sel{X: I("m"), Name: "k"}, N("42")), Set(&Index{X: I("a"), I: N("0")}, N("43")),
			Def("out", &ArrayLit{Elems: []Expr{&Sel{X: I("m"), Name: "k"}, &Index{X: I("a"), I: N("0")}, I(v(0)), I(v((n - 1) % 256)), I(v(n - 2))}}))
		return &Program{Main: main}
	case "selectors":
		// m := {}; cur := m; build a chain of n nested maps, then assign through the whole chain
		main := []Stmt{Def("m", &MapLit{}), Def("cur", I("m"))}
		main = append(main, &For{Init: Def("i", N("0")), Cond: B("<", I("i"), N(fmt.Sprint(n))), Post: &IncDec{X: I("i"), Op: "++"},
			Body: []Stmt{Set(&Sel{X: I("cur"), Name: "k"}, &MapLit{}), Set(I("cur"), &Sel{X: I("cur"), Name: "k"})}})
		var lhs Expr = I("m")
		for i := 0; i < n; i++ {
			lhs = &Sel{X: lhs, Name: "k"}
		}
		main = append(main, Set(lhs, N("42")))
		// read it back through a loop
		main = append(main, Def("r", I("m")), &For{Init: Def("j", N("0")), Cond: B("<", I("j"), N(fmt.Sprint(n))), Post: &IncDec{X: I("j"), Op: "++"},
			Body: []Stmt{Set(I("r"), &Sel{X: I("r"), Name: "k"})}}, Def("out", I("r")), Set(I("m"), Undef()), Set(I("cur"), Undef()), Set(I("r"), Undef()))
		return &Program{Main: main}
	case "map-literal":
		m := &MapLit{}
		for i := 0; i < n; i++ {
			m.Keys = append(m.Keys, fmt.Sprintf("k%d", i))
			m.Vals = append(m.Vals, N(fmt.Sprint(i)))
		}
		return &Program{Main: []Stmt{Def("a", m),
			Def("out", &ArrayLit{Elems: []Expr{&Sel{X: I("a"), Name: "k0"}, &Sel{X: I("a"), Name: fmt.Sprintf("k%d", n-1)}, C(I("len"), I("a"))}}),
			Set(I("a"), Undef())}}
	case "array-literal":
		var elems []Expr
		for i := 0; i < n; i++ {
			elems = append(elems, N(fmt.Sprint(i)))
		}
		return &Program{Main: []Stmt{Def("a", &ArrayLit{Elems: elems}),
			Def("out", &ArrayLit{Elems: []Expr{&Index{X: I("a"), I: N("0")}, &Index{X: I("a"), I: N(fmt.Sprint(n - 1))}, C(I("len"), I("a"))}}),
			Set(I("a"), Undef())}}
	}
	return nil
}
