package gen

// The consts family (C12): every sequence of at most N snippets from a pool
// that produces duplicate constants of every de-duplicable type (equal ints,
// floats, chars, strings in main, in functions, in closures and in modules;
// 1 vs 1.0; 'a' vs 97), builtin modules imported once and twice, source
// modules (imported twice; one importing the other), closures and a failing
// statement (so that error positions after de-duplication / decoding are
// compared too).

// ConstSnippets is the pool; each entry is a statement list defining its own variables (suffix = position).
func constSnippet(i int, pos string) []Stmt {
	v := func(n string) string { return n + pos }
	f := func(src string) *Lit { return &Lit{Src: src, Kind: "float"} }
	ch := func(src string) *Lit { return &Lit{Src: src, Kind: "char"} }
	switch i {
	case 0:
		return []Stmt{Def(v("a"), N("1"))}
	case 1:
		return []Stmt{Def(v("a"), f("1.0"))}
	case 2:
		return []Stmt{Def(v("a"), ch("'a'"))}
	case 3:
		return []Stmt{Def(v("a"), N("97"))}
	case 4:
		return []Stmt{Def(v("a"), S(`"a"`))}
	case 5:
		return []Stmt{Def(v("a"), B("+", S(`"a"`), S(`"b"`)))}
	case 6:
		return []Stmt{Def(v("f"), &FuncLit{Body: []Stmt{&Return{X: &ArrayLit{Elems: []Expr{N("1"), f("1.0"), S(`"a"`), ch("'a'")}}}}}), Def(v("a"), C(I(v("f"))))}
	case 7: // closure capturing a global-level local through a function
		return []Stmt{Def(v("mk"), &FuncLit{Params: []string{"p"}, Body: []Stmt{
			&Return{X: &FuncLit{Body: []Stmt{&Return{X: B("+", I("p"), N("97"))}}}}}}),
			Def(v("a"), C(C(I(v("mk")), N("1"))))}
	case 8:
		return []Stmt{Def(v("m"), &Import{Name: "math"}), Def(v("a"), C(&Sel{X: I(v("m")), Name: "abs"}, &Lit{Src: "-1.5", Kind: "float"}))}
	case 9:
		return []Stmt{Def(v("t"), &Import{Name: "text"}), Def(v("a"), C(&Sel{X: I(v("t")), Name: "to_upper"}, S(`"a"`)))}
	case 10:
		return []Stmt{Def(v("s"), &Import{Name: "srcmod"}), Def(v("a"), C(&Sel{X: I(v("s")), Name: "get"}, N("1")))}
	case 11:
		return []Stmt{Def(v("s"), &Import{Name: "srcmod2"}), Def(v("a"), &Sel{X: I(v("s")), Name: "val"})}
	case 12: // run-time failure: position must survive the transformations
		return []Stmt{Def(v("a"), B("+", N("1"), S(`"a"`)))}
	case 13: // failure inside a function called from main, after other constants
		return []Stmt{Def(v("f"), &FuncLit{Params: []string{"x"}, Body: []Stmt{&Return{X: B("-", S(`"a"`), I("x"))}}}), Def(v("a"), C(I(v("f")), N("97")))}
	case 14: // byte-identical code to snippet 15 except for the variadic flag
		return []Stmt{Def(v("f"), &FuncLit{Params: []string{"x"}, Body: []Stmt{&Return{X: I("x")}}}), Def(v("a"), C(I(v("f")), N("7")))}
	case 15:
		return []Stmt{Def(v("f"), &FuncLit{Params: []string{"x"}, VarArgs: true, Body: []Stmt{&Return{X: I("x")}}}), Def(v("a"), C(I(v("f")), N("7")))}
	case 16: // constant-free helper that fails when called with a string: two copies differ only in their positions
		return []Stmt{Def(v("f"), &FuncLit{Params: []string{"x", "y"}, Body: []Stmt{&Return{X: B("-", I("x"), I("y"))}}}), Def(v("a"), C(I(v("f")), N("9"), N("2")))}
	case 17:
		return []Stmt{Def(v("f"), &FuncLit{Params: []string{"x", "y"}, Body: []Stmt{&Return{X: B("-", I("x"), I("y"))}}}), Def(v("a"), C(I(v("f")), S(`"a"`), N("2")))}
	case 18: // a builtin module and no other constant: two copies are the only duplicate
		return []Stmt{Def(v("m"), &Import{Name: "math"}), Def(v("a"), C(I("is_immutable_map"), I(v("m"))))}
	case 19: // host module whose value is a bare singleton: identity must survive every transformation
		return []Stmt{Def(v("m"), &Import{Name: "flagmod"}), Def(v("u"), &Import{Name: "undefmod"}),
			Def(v("a"), &ArrayLit{Elems: []Expr{B("==", I(v("m")), True()), B("==", I(v("u")), Undef()), B("==", &Import{Name: "offmod"}, False())}})}
	case 20: // host modules with scalar / immutable-array values
		return []Stmt{Def(v("n"), &Import{Name: "nummod"}), Def(v("l"), &Import{Name: "listmod"}),
			Def(v("a"), &ArrayLit{Elems: []Expr{B("+", I(v("n")), N("1")), B("==", &Index{X: I(v("l")), I: N("0")}, True()), B("==", &Index{X: I(v("l")), I: N("1")}, Undef())}})}
	case 22: // host modules of the remaining constant kinds; singletons nested in error values / maps keep their identity
		imp := func(n string) Expr { return &Import{Name: n} }
		return []Stmt{Def(v("a"), &ArrayLit{Elems: []Expr{
			B("==", &Sel{X: imp("errmod"), Name: "value"}, True()),
			B("==", &Sel{X: imp("mapmod"), Name: "t"}, False()),
			B("==", &Sel{X: &Sel{X: imp("mapmod"), Name: "e"}, Name: "value"}, Undef()),
			B("==", &Sel{X: &Sel{X: imp("mapmod"), Name: "n"}, Name: "u"}, Undef()),
			B("==", &Index{X: &Sel{X: &Sel{X: imp("mapmod"), Name: "n"}, Name: "a"}, I: N("0")}, True()),
			B("+", &Sel{X: imp("immamod"), Name: "who"}, &Sel{X: imp("immbmod"), Name: "who"}),
			&Sel{X: imp("namedmod"), Name: "region"}, &Sel{X: imp("namedmod"), Name: "n"},
			imp("bytesmod"), imp("timemod"), imp("charmod"), imp("nanmod"), imp("mapmod")}})}
	case 21: // iterating a builtin module table (a constant shared by all clones)
		return []Stmt{Def(v("m"), &Import{Name: "math"}), Def(v("a"), N("0")),
			&ForIn{Key: "k" + pos, Val: "w" + pos, X: I(v("m")), Body: []Stmt{&Assign{LHS: I(v("a")), Op: "+=", RHS: N("1")}}}}
	}
	return nil
}

// NumConstSnippets is the pool size.
const NumConstSnippets = 23

// ConstModules are the source modules available to the consts family.
func ConstModules() map[string][]Stmt {
	f := func(src string) *Lit { return &Lit{Src: src, Kind: "float"} }
	return map[string][]Stmt{
		"srcmod": {
			Def("k", N("1")),
			&Export{X: &MapLit{Keys: []string{"get", "name"}, Vals: []Expr{
				&FuncLit{Params: []string{"x"}, Body: []Stmt{&Return{X: &ArrayLit{Elems: []Expr{B("+", I("x"), I("k")), f("1.0"), S(`"a"`)}}}}},
				S(`"a"`)}}},
		},
		"srcmod2": {
			Def("inner", &Import{Name: "srcmod"}),
			&Export{X: &MapLit{Keys: []string{"val"}, Vals: []Expr{C(&Sel{X: I("inner"), Name: "get"}, N("97"))}}},
		},
	}
}

// Consts generates one program: a sequence of 1..max snippets.
func Consts(max int) func(ch *Chooser) *Program {
	return func(ch *Chooser) *Program {
		n := 1 + ch.Choose(max)
		p := &Program{Modules: ConstModules()}
		for i := 0; i < n; i++ {
			p.Main = append(p.Main, constSnippet(ch.Choose(NumConstSnippets), string(rune('0'+i)))...)
		}
		return p
	}
}
