package gen

import (
	"runtime"
	"sync"
)

// ParallelEnumerate enumerates the whole decision tree of gen with all cores:
// the tree is cut at shardDepth and the subtrees are distributed. visit is
// called concurrently. Returns the number of leaves.
func ParallelEnumerate[T any](gen func(*Chooser) T, shardDepth int, visit func(t T, choices []int)) int64 {
	shards := Shards(gen, shardDepth)
	var wg sync.WaitGroup
	var mu sync.Mutex
	next := 0
	var total int64
	for w := 0; w < runtime.GOMAXPROCS(0); w++ {
		wg.Add(1)
		go func() {
			defer wg.Done()
			for {
				mu.Lock()
				i := next
				next++
				mu.Unlock()
				if i >= len(shards) {
					return
				}
				n := EnumerateShard(gen, shards[i], func(t T, ch []int) bool { visit(t, ch); return true })
				mu.Lock()
				total += n
				mu.Unlock()
			}
		}()
	}
	wg.Wait()
	return total
}
