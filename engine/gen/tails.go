package gen

import "fmt"

// The tails family: functions whose LAST statement is varied systematically
// over statement kinds and over the numeric operands the compiler encodes for
// them (operator token, local / free / global index, argument count, element
// count, selector count, constant index), so that every value 0..40 of the
// trailing instruction's operand bytes occurs. Aimed at code that inspects the
// end of an instruction stream (trailing-return insertion, tail-call
// detection, dead-code elimination at function end).

// TailKinds lists the shapes; each takes a parameter k in [0, TailMaxK].
var TailKinds = []string{"binop-exprstmt", "unary-exprstmt", "store-local-k", "selstore-local-k", "selstore-free-k",
	"selstore-global-k", "store-global-k", "call-k-args", "array-k-elems", "map-k-elems", "const-k", "closure-k-free",
	"define-local-k", "load-local-k", "incdec-local-k", "if-tail", "loop-tail", "forin-tail", "return-in-branch",
	// every compound assignment operator on every kind of target
	"compound-global", "compound-local", "compound-free", "compound-sel", "compound-index", "compound-main",
	// the operand of immutable(...) / export ends in an instruction whose last operand byte takes every small value
	"immutable-array-k", "immutable-local-k", "immutable-global-k", "export-array-k"}

// TailMaxK is the largest operand value driven.
const TailMaxK = 40

var tailBinOps = []string{"+", "-", "*", "/", "%", "&", "|", "^", "&^", "<<", ">>", "<", "<=", ">", ">=", "==", "!=", "&&", "||"}

// TailCount returns the number of parameter values meaningful for kind.
func TailCount(kind string) int {
	switch kind {
	case "binop-exprstmt":
		return len(tailBinOps)
	case "unary-exprstmt":
		return 4
	case "if-tail", "loop-tail", "forin-tail", "return-in-branch":
		return 4
	case "compound-global", "compound-local", "compound-free", "compound-sel", "compound-index", "compound-main":
		return len(compoundOps)
	}
	return TailMaxK + 1
}

// Tails builds the program for (kind, k). The function f is defined and
// called once; globals g0..gk exist when a global index is needed.
func Tails(kind string, k int) *Program {
	name := func(p string, i int) string { return fmt.Sprintf("%s%d", p, i) }
	var pre []Stmt  // main-level prelude
	var body []Stmt // function body
	locals := func(n int) {
		for i := 0; i < n; i++ {
			body = append(body, Def(name("l", i), N(fmt.Sprint(i))))
		}
	}
	one := N("1")
	switch kind {
	case "binop-exprstmt":
		body = append(body, Def("a", N("6")), Def("b", N("3")), &ExprStmt{X: B(tailBinOps[k%len(tailBinOps)], I("a"), I("b"))})
	case "unary-exprstmt":
		body = append(body, Def("a", N("6")), &ExprStmt{X: &Un{Op: []string{"-", "!", "^", "+"}[k%4], X: I("a")}})
	case "store-local-k":
		locals(k + 1)
		body = append(body, Set(I(name("l", k)), one))
	case "define-local-k":
		locals(k)
		body = append(body, Def(name("l", k), one))
	case "load-local-k":
		locals(k + 1)
		body = append(body, &ExprStmt{X: I(name("l", k))})
	case "incdec-local-k":
		locals(k + 1)
		body = append(body, &IncDec{X: I(name("l", k)), Op: "++"})
	case "selstore-local-k":
		locals(k)
		body = append(body, Def(name("l", k), &MapLit{}), Set(&Sel{X: I(name("l", k)), Name: "x"}, one))
	case "selstore-free-k":
		// k+1 captured variables; the inner function's last statement stores through free variable #k
		locals(k)
		body = append(body, Def(name("l", k), &MapLit{}))
		var uses []Stmt
		for i := 0; i < k; i++ {
			uses = append(uses, &ExprStmt{X: I(name("l", i))})
		}
		uses = append(uses, Set(&Sel{X: I(name("l", k)), Name: "x"}, one))
		body = append(body, Def("inner", &FuncLit{Body: uses}), &ExprStmt{X: C(I("inner"))})
	case "selstore-global-k", "store-global-k":
		for i := 0; i < k; i++ {
			pre = append(pre, Def(name("g", i), N(fmt.Sprint(i))))
		}
		pre = append(pre, Def(name("g", k), &MapLit{}))
		if kind == "selstore-global-k" {
			body = append(body, Set(&Sel{X: I(name("g", k)), Name: "x"}, one))
		} else {
			body = append(body, Set(I(name("g", k)), one))
		}
	case "call-k-args":
		var ps []string
		var args []Expr
		for i := 0; i < k; i++ {
			ps = append(ps, name("p", i))
			args = append(args, N(fmt.Sprint(i)))
		}
		body = append(body, Def("h", &FuncLit{Params: ps, Body: []Stmt{&Return{X: N("7")}}}), &ExprStmt{X: C(I("h"), args...)})
	case "array-k-elems":
		var es []Expr
		for i := 0; i < k; i++ {
			es = append(es, N("1"))
		}
		body = append(body, &ExprStmt{X: &ArrayLit{Elems: es}})
	case "map-k-elems":
		m := &MapLit{}
		for i := 0; i < k; i++ {
			m.Keys = append(m.Keys, name("k", i))
			m.Vals = append(m.Vals, N("1"))
		}
		body = append(body, Def("m", m))
	case "const-k":
		// k earlier distinct constants, then an expression statement loading constant #k
		for i := 0; i < k; i++ {
			pre = append(pre, Def(name("c", i), S(fmt.Sprintf(`"s%d"`, i))))
		}
		body = append(body, &ExprStmt{X: S(`"last"`)})
	case "closure-k-free":
		locals(k)
		var uses []Stmt
		for i := 0; i < k; i++ {
			uses = append(uses, &ExprStmt{X: I(name("l", i))})
		}
		body = append(body, Def("inner", &FuncLit{Body: uses}))
	case "if-tail":
		body = append(body, Def("a", N("1")))
		switch k % 4 {
		case 0:
			body = append(body, &If{Cond: I("a"), Then: []Stmt{Set(I("a"), N("2"))}})
		case 1:
			body = append(body, &If{Cond: I("a"), Then: []Stmt{&Return{X: I("a")}}})
		case 2:
			body = append(body, &If{Cond: I("a"), Then: []Stmt{&Return{X: I("a")}}, Else: []Stmt{Set(I("a"), N("3"))}})
		default:
			body = append(body, &If{Cond: I("a"), Then: []Stmt{Set(I("a"), N("2"))}, Else: []Stmt{&Return{}}})
		}
	case "loop-tail":
		body = append(body, Def("a", N("0")))
		switch k % 4 {
		case 0:
			body = append(body, &For{Cond: B("<", I("a"), N("2")), Body: []Stmt{&IncDec{X: I("a"), Op: "++"}}})
		case 1:
			body = append(body, &For{Body: []Stmt{&Break{}}})
		case 2:
			body = append(body, &For{Cond: B("<", I("a"), N("2")), Body: []Stmt{&IncDec{X: I("a"), Op: "++"}, &Continue{}}})
		default:
			body = append(body, &For{Body: []Stmt{&Return{X: I("a")}}})
		}
	case "forin-tail":
		body = append(body, Def("a", N("0")))
		x := &ArrayLit{Elems: []Expr{N("1"), N("2")}}
		switch k % 4 {
		case 0:
			body = append(body, &ForIn{Key: "v", X: x, Body: []Stmt{Set(I("a"), I("v"))}})
		case 1:
			body = append(body, &ForIn{Key: "i", Val: "v", X: x, Body: []Stmt{&Break{}}})
		case 2:
			body = append(body, &ForIn{Key: "i", Val: "v", X: x, Body: []Stmt{&Continue{}}})
		default:
			body = append(body, &ForIn{Key: "v", X: x, Body: []Stmt{&Return{X: I("v")}}})
		}
	case "compound-global", "compound-local", "compound-free", "compound-sel", "compound-index", "compound-main":
		op := compoundOps[k%len(compoundOps)]
		pre = append(pre, Def("g", N("13")), Def("m", &MapLit{Keys: []string{"v"}, Vals: []Expr{N("13")}}), Def("arr", &ArrayLit{Elems: []Expr{N("13")}}), Def("seen", Undef()))
		switch kind {
		case "compound-global":
			body = append(body, &Assign{LHS: I("g"), Op: op, RHS: N("5")})
		case "compound-local":
			body = append(body, Def("a", N("13")), Def("show", &FuncLit{Body: []Stmt{Set(I("seen"), I("a"))}}),
				&Assign{LHS: I("a"), Op: op, RHS: N("5")}, &ExprStmt{X: C(I("show"))}, &Assign{LHS: I("a"), Op: op, RHS: N("2")})
		case "compound-free":
			body = append(body, Def("a", N("13")), Def("inner", &FuncLit{Body: []Stmt{&Assign{LHS: I("a"), Op: op, RHS: N("5")}}}),
				&ExprStmt{X: C(I("inner"))}, Set(I("seen"), I("a")), &ExprStmt{X: C(I("inner"))})
		case "compound-sel":
			body = append(body, &Assign{LHS: &Sel{X: I("m"), Name: "v"}, Op: op, RHS: N("5")})
		case "compound-index":
			body = append(body, &Assign{LHS: &Index{X: I("arr"), I: N("0")}, Op: op, RHS: N("5")})
		case "compound-main":
			// at the top level of the main script, also inside a loop (a leaked slot accumulates)
			pre = append(pre, &Assign{LHS: I("g"), Op: op, RHS: N("5")},
				&For{Init: Def("i", N("0")), Cond: B("<", I("i"), N("3")), Post: &IncDec{X: I("i"), Op: "++"},
					Body: []Stmt{&Assign{LHS: &Sel{X: I("m"), Name: "v"}, Op: op, RHS: N("2")}}})
		}
	case "immutable-array-k", "export-array-k":
		var es []Expr
		for i := 0; i < k; i++ {
			es = append(es, N("1"))
		}
		if kind == "export-array-k" {
			return &Program{Modules: map[string][]Stmt{"m": {&Export{X: &ArrayLit{Elems: es}}}},
				Main: []Stmt{Def("out", &Import{Name: "m"}), Def("kind", C(I("type_name"), I("out")))}}
		}
		body = append(body, &Return{X: &Immutable{X: &ArrayLit{Elems: es}}})
	case "immutable-local-k":
		locals(k)
		body = append(body, Def(name("l", k), &ArrayLit{Elems: []Expr{N("1")}}), &Return{X: &Immutable{X: I(name("l", k))}})
	case "immutable-global-k":
		for i := 0; i < k; i++ {
			pre = append(pre, Def(name("g", i), N(fmt.Sprint(i))))
		}
		pre = append(pre, Def(name("g", k), &ArrayLit{Elems: []Expr{N("1")}}))
		body = append(body, &Return{X: &Immutable{X: I(name("g", k))}})
	case "return-in-branch":
		body = append(body, Def("a", N("1")))
		switch k % 4 {
		case 0:
			body = append(body, &Return{X: I("a")}, Set(I("a"), N("2")))
		case 1:
			body = append(body, &If{Cond: I("a"), Then: []Stmt{&Return{}, Set(I("a"), N("2"))}}, Set(I("a"), N("3")))
		case 2:
			body = append(body, &For{Cond: I("a"), Body: []Stmt{&Return{X: I("a")}, &Break{}}})
		default:
			body = append(body, &Return{X: B("||", I("a"), N("5"))}, &Return{})
		}
	}
	main := append(pre, Def("f", &FuncLit{Body: body}), Def("out", C(I("f"))))
	return &Program{Main: main}
}
