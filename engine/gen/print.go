package gen

import (
	"strings"
)

// Span is a half-open byte range of the printed text.
type Span struct {
	Start, End int
	Line, Col  int // 1-based position of Start
}

// Printed is source text plus the span map.
type Printed struct {
	Src   string
	Stmts map[int]Span // statement id -> span of the whole statement
	Own   map[int][]Span // statement id -> spans of its *own* text (whole span minus nested statements' spans)
	Calls map[int]Span // call-site id -> span of the call expression
	// Parent statement id of each statement id (0 = top level of its function/file)
	StmtOfCall map[int]int // call-site id -> innermost enclosing statement id
}

type printer struct {
	sb      strings.Builder
	line    int
	lineOff int
	nextID  int
	out     *Printed
	stmtStk []int
	nested  map[int][]Span
	indent  int
}

// Print renders statements, assigning fresh IDs to statements and call sites.
func Print(stmts []Stmt) *Printed {
	p := &printer{line: 1, out: &Printed{Stmts: map[int]Span{}, Own: map[int][]Span{}, Calls: map[int]Span{}, StmtOfCall: map[int]int{}}, nested: map[int][]Span{}}
	p.stmts(stmts)
	p.out.Src = p.sb.String()
	for id, sp := range p.out.Stmts {
		own := []Span{}
		cur := sp.Start
		for _, n := range p.nested[id] {
			if n.Start > cur {
				own = append(own, Span{Start: cur, End: n.Start})
			}
			cur = n.End
		}
		if cur < sp.End {
			own = append(own, Span{Start: cur, End: sp.End})
		}
		p.out.Own[id] = own
	}
	return p.out
}

func (p *printer) w(s string) {
	for _, ch := range s {
		if ch == '\n' {
			p.line++
			p.lineOff = p.sb.Len() + 1
		}
	}
	p.sb.WriteString(s)
}

func (p *printer) nl() {
	p.w("\n")
	p.w(strings.Repeat("\t", p.indent))
}

func (p *printer) id() int { p.nextID++; return p.nextID }

func (p *printer) stmts(ss []Stmt) {
	for i, s := range ss {
		if i > 0 {
			p.nl()
		}
		p.stmt(s)
	}
}

func (p *printer) block(ss []Stmt) {
	p.w("{")
	if len(ss) > 0 {
		p.indent++
		p.nl()
		p.stmts(ss)
		p.indent--
		p.nl()
	}
	p.w("}")
}

func (p *printer) begin(idp *int) (int, int) {
	*idp = p.id()
	start := p.sb.Len()
	p.out.Stmts[*idp] = Span{Start: start, Line: p.line, Col: start - p.lineOff + 1}
	p.stmtStk = append(p.stmtStk, *idp)
	return *idp, start
}

func (p *printer) end(id int) {
	sp := p.out.Stmts[id]
	sp.End = p.sb.Len()
	p.out.Stmts[id] = sp
	p.stmtStk = p.stmtStk[:len(p.stmtStk)-1]
	if n := len(p.stmtStk); n > 0 {
		par := p.stmtStk[n-1]
		p.nested[par] = append(p.nested[par], sp)
	}
}

func (p *printer) simple(s Stmt) { // simple statement without trailing newline (used in if/for headers too)
	switch s := s.(type) {
	case *Assign:
		id, _ := p.begin(&s.ID)
		p.expr(s.LHS)
		p.w(" " + s.Op + " ")
		p.expr(s.RHS)
		p.end(id)
	case *IncDec:
		id, _ := p.begin(&s.ID)
		p.expr(s.X)
		p.w(s.Op)
		p.end(id)
	case *ExprStmt:
		id, _ := p.begin(&s.ID)
		p.expr(s.X)
		p.end(id)
	default:
		panic("not a simple statement")
	}
}

func (p *printer) stmt(s Stmt) {
	switch s := s.(type) {
	case *Assign, *IncDec, *ExprStmt:
		p.simple(s)
	case *If:
		id, _ := p.begin(&s.ID)
		p.w("if ")
		if s.Init != nil {
			p.simple(s.Init)
			p.w("; ")
		}
		p.expr(s.Cond)
		p.w(" ")
		p.block(s.Then)
		if s.Else != nil {
			p.w(" else ")
			if len(s.Else) == 1 {
				if ei, ok := s.Else[0].(*If); ok {
					p.stmt(ei)
					p.end(id)
					return
				}
			}
			p.block(s.Else)
		}
		p.end(id)
	case *For:
		id, _ := p.begin(&s.ID)
		p.w("for ")
		if s.Init != nil || s.Post != nil {
			if s.Init != nil {
				p.simple(s.Init)
			}
			p.w("; ")
			if s.Cond != nil {
				p.expr(s.Cond)
			}
			p.w("; ")
			if s.Post != nil {
				p.simple(s.Post)
			}
			p.w(" ")
		} else if s.Cond != nil {
			p.expr(s.Cond)
			p.w(" ")
		}
		p.block(s.Body)
		p.end(id)
	case *ForIn:
		id, _ := p.begin(&s.ID)
		p.w("for " + s.Key)
		if s.Val != "" {
			p.w(", " + s.Val)
		}
		p.w(" in ")
		p.expr(s.X)
		p.w(" ")
		p.block(s.Body)
		p.end(id)
	case *Break:
		id, _ := p.begin(&s.ID)
		p.w("break")
		p.end(id)
	case *Continue:
		id, _ := p.begin(&s.ID)
		p.w("continue")
		p.end(id)
	case *Return:
		id, _ := p.begin(&s.ID)
		p.w("return")
		if s.X != nil {
			p.w(" ")
			p.expr(s.X)
		}
		p.end(id)
	case *Block:
		id, _ := p.begin(&s.ID)
		p.block(s.Body)
		p.end(id)
	case *Export:
		id, _ := p.begin(&s.ID)
		p.w("export ")
		p.expr(s.X)
		p.end(id)
	default:
		panic("unknown statement")
	}
}

func (p *printer) exprList(es []Expr) {
	for i, e := range es {
		if i > 0 {
			p.w(", ")
		}
		p.expr(e)
	}
}

// expr prints fully parenthesised compound sub-expressions: the generator
// never relies on precedence (that is C20's subject).
func (p *printer) expr(e Expr) {
	switch e := e.(type) {
	case *Lit:
		p.w(e.Src)
	case *Ident:
		p.w(e.Name)
	case *Paren:
		p.w("(")
		p.expr(e.X)
		p.w(")")
	case *Bin:
		p.operand(e.L)
		p.w(" " + e.Op + " ")
		p.operand(e.R)
	case *Un:
		p.w(e.Op)
		p.operand(e.X)
	case *Cond:
		p.operand(e.C)
		p.w(" ? ")
		p.operand(e.T)
		p.w(" : ")
		p.operand(e.F)
	case *Call:
		e.ID = p.id()
		start := p.sb.Len()
		line, col := p.line, start-p.lineOff+1
		p.postfixBase(e.F)
		p.w("(")
		p.exprList(e.Args)
		if e.Spread {
			p.w("...")
		}
		p.w(")")
		p.out.Calls[e.ID] = Span{Start: start, End: p.sb.Len(), Line: line, Col: col}
		if n := len(p.stmtStk); n > 0 {
			p.out.StmtOfCall[e.ID] = p.stmtStk[n-1]
		}
	case *Index:
		p.postfixBase(e.X)
		p.w("[")
		p.expr(e.I)
		p.w("]")
	case *Sel:
		p.postfixBase(e.X)
		p.w("." + e.Name)
	case *Slice:
		p.postfixBase(e.X)
		p.w("[")
		if e.Lo != nil {
			p.expr(e.Lo)
		}
		p.w(":")
		if e.Hi != nil {
			p.expr(e.Hi)
		}
		p.w("]")
	case *ArrayLit:
		p.w("[")
		p.exprList(e.Elems)
		p.w("]")
	case *MapLit:
		p.w("{")
		for i, k := range e.Keys {
			if i > 0 {
				p.w(", ")
			}
			p.w(k + ": ")
			p.expr(e.Vals[i])
		}
		p.w("}")
	case *FuncLit:
		p.w("func(")
		for i, n := range e.Params {
			if i > 0 {
				p.w(", ")
			}
			if e.VarArgs && i == len(e.Params)-1 {
				p.w("...")
			}
			p.w(n)
		}
		p.w(") ")
		// function bodies open a fresh statement context for span nesting
		saved := p.stmtStk
		p.block(e.Body)
		p.stmtStk = saved
	case *Immutable:
		p.w("immutable(")
		p.expr(e.X)
		p.w(")")
	case *ErrorE:
		p.w("error(")
		p.expr(e.X)
		p.w(")")
	case *Import:
		p.w("import(\"" + e.Name + "\")")
	default:
		panic("unknown expression")
	}
}

func atomic(e Expr) bool {
	switch e.(type) {
	case *Lit, *Ident, *Paren, *Call, *Index, *Sel, *Slice, *ArrayLit, *MapLit, *Immutable, *ErrorE, *Import:
		return true
	}
	return false
}

func (p *printer) operand(e Expr) {
	if l, ok := e.(*Lit); ok && strings.HasPrefix(l.Src, "-") {
		p.w("(" + l.Src + ")")
		return
	}
	if atomic(e) {
		p.expr(e)
		return
	}
	p.w("(")
	p.expr(e)
	p.w(")")
}

func (p *printer) postfixBase(e Expr) {
	switch e.(type) {
	case *Ident, *Paren, *Call, *Index, *Sel, *Slice, *Import, *Immutable, *ErrorE, *FuncLit:
		// a function literal is invoked / indexed without parentheses: func() { ... }()
		p.expr(e)
	default:
		p.w("(")
		p.expr(e)
		p.w(")")
	}
}
