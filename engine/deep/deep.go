// Package deep takes reflective deep snapshots of Go object graphs, including
// unexported fields, so that any memory written by one execution and
// reachable from another object shows up as a difference (C08 part 3).
package deep

import (
	"fmt"
	"math"
	"reflect"
	"sort"
	"strings"
	"unsafe"
)

// Snapshot maps a field path to the rendered scalar stored there.
type Snapshot map[string]string

// Take walks everything reachable from root.
func Take(root interface{}) Snapshot {
	s := Snapshot{}
	w := &walker{out: s, seen: map[uintptr]string{}}
	w.walk(reflect.ValueOf(root), "root", 0)
	return s
}

// Diff returns the paths whose value differs (sorted), with before/after.
func Diff(a, b Snapshot) []string {
	var out []string
	for k, v := range a {
		if w, ok := b[k]; !ok {
			out = append(out, fmt.Sprintf("%s: %s -> (gone)", k, v))
		} else if v != w {
			out = append(out, fmt.Sprintf("%s: %s -> %s", k, v, w))
		}
	}
	for k, w := range b {
		if _, ok := a[k]; !ok {
			out = append(out, fmt.Sprintf("%s: (absent) -> %s", k, w))
		}
	}
	sort.Strings(out)
	return out
}

type walker struct {
	out  Snapshot
	seen map[uintptr]string
}

func skipType(t reflect.Type) bool {
	p := t.PkgPath()
	return p == "sync" || p == "sync/atomic" || strings.HasSuffix(p, "engine/vsched")
}

func (w *walker) walk(v reflect.Value, path string, depth int) {
	if !v.IsValid() {
		w.out[path] = "invalid"
		return
	}
	if depth > 200 {
		w.out[path] = "<deep>"
		return
	}
	t := v.Type()
	if skipType(t) {
		return
	}
	switch v.Kind() {
	case reflect.Ptr:
		if v.IsNil() {
			w.out[path] = "nil"
			return
		}
		p := v.Pointer()
		if first, ok := w.seen[p]; ok {
			w.out[path] = "->" + first
			return
		}
		w.seen[p] = path
		w.walk(v.Elem(), path+"*", depth+1)
	case reflect.Interface:
		if v.IsNil() {
			w.out[path] = "nil"
			return
		}
		w.walk(v.Elem(), path+"("+v.Elem().Type().String()+")", depth+1)
	case reflect.Struct:
		if !v.CanAddr() {
			c := reflect.New(t).Elem()
			c.Set(v)
			v = c
		}
		for i := 0; i < v.NumField(); i++ {
			f := v.Field(i)
			f = reflect.NewAt(f.Type(), unsafe.Pointer(f.UnsafeAddr())).Elem()
			w.walk(f, path+"."+t.Field(i).Name, depth+1)
		}
	case reflect.Slice:
		if v.IsNil() {
			w.out[path] = "nil-slice"
			return
		}
		w.out[path+".len"] = fmt.Sprint(v.Len())
		if v.Type().Elem().Kind() == reflect.Uint8 {
			w.out[path] = fmt.Sprintf("%q", v.Bytes())
			return
		}
		for i := 0; i < v.Len(); i++ {
			w.walk(v.Index(i), fmt.Sprintf("%s[%d]", path, i), depth+1)
		}
	case reflect.Array:
		n := v.Len()
		if n > 64 {
			// large fixed arrays (VM stack/frames) are not reachable from compiled objects; render sparsely
			n = 64
		}
		for i := 0; i < n; i++ {
			w.walk(v.Index(i), fmt.Sprintf("%s[%d]", path, i), depth+1)
		}
	case reflect.Map:
		if v.IsNil() {
			w.out[path] = "nil-map"
			return
		}
		w.out[path+".len"] = fmt.Sprint(v.Len())
		keys := v.MapKeys()
		sort.Slice(keys, func(i, j int) bool { return fmt.Sprint(keys[i]) < fmt.Sprint(keys[j]) })
		for _, k := range keys {
			w.walk(v.MapIndex(k), fmt.Sprintf("%s[%v]", path, k), depth+1)
		}
	case reflect.Func:
		if v.IsNil() {
			w.out[path] = "nil-func"
		} else {
			w.out[path] = fmt.Sprintf("func@%x", v.Pointer())
		}
	case reflect.Chan, reflect.UnsafePointer:
		w.out[path] = fmt.Sprintf("%s@%x", v.Kind(), v.Pointer())
	case reflect.Float32, reflect.Float64:
		w.out[path] = fmt.Sprintf("%x", math.Float64bits(v.Float()))
	case reflect.String:
		w.out[path] = fmt.Sprintf("%q", v.String())
	default:
		if v.CanInterface() {
			w.out[path] = fmt.Sprint(v.Interface())
		} else {
			switch v.Kind() {
			case reflect.Bool:
				w.out[path] = fmt.Sprint(v.Bool())
			case reflect.Int, reflect.Int8, reflect.Int16, reflect.Int32, reflect.Int64:
				w.out[path] = fmt.Sprint(v.Int())
			case reflect.Uint, reflect.Uint8, reflect.Uint16, reflect.Uint32, reflect.Uint64, reflect.Uintptr:
				w.out[path] = fmt.Sprint(v.Uint())
			default:
				w.out[path] = "?"
			}
		}
	}
}
