// Package bcv is the bytecode abstract machine: an independent decoder and
// table of stack effects, the explicit-state exploration of every function
// over (pc, operand-stack height), and the lock-step bisimulation of an
// unoptimised/optimised pair of instruction streams.
package bcv

import (
	"fmt"
	"sort"

	"github.com/d5/tengo/v2"
	"github.com/d5/tengo/v2/parser"
)

// Instr is one decoded instruction.
type Instr struct {
	PC   int
	Op   parser.Opcode
	Args []int
	Size int
}

// widths is this package's own copy of the operand widths (the VM hard-codes
// them in its dispatch loop; parser.OpcodeOperands is what the compiler uses —
// a disagreement between the three is itself a finding).
var widths = map[parser.Opcode][]int{
	parser.OpConstant: {2}, parser.OpBComplement: {}, parser.OpPop: {}, parser.OpTrue: {}, parser.OpFalse: {},
	parser.OpEqual: {}, parser.OpNotEqual: {}, parser.OpMinus: {}, parser.OpLNot: {},
	parser.OpJumpFalsy: {4}, parser.OpAndJump: {4}, parser.OpOrJump: {4}, parser.OpJump: {4}, parser.OpNull: {},
	parser.OpArray: {2}, parser.OpMap: {2}, parser.OpError: {}, parser.OpImmutable: {}, parser.OpIndex: {},
	parser.OpSliceIndex: {}, parser.OpCall: {1, 1}, parser.OpReturn: {1}, parser.OpGetGlobal: {2},
	parser.OpSetGlobal: {2}, parser.OpSetSelGlobal: {2, 1}, parser.OpGetLocal: {1}, parser.OpSetLocal: {1},
	parser.OpDefineLocal: {1}, parser.OpSetSelLocal: {1, 1}, parser.OpGetFreePtr: {1}, parser.OpGetFree: {1},
	parser.OpSetFree: {1}, parser.OpGetLocalPtr: {1}, parser.OpSetSelFree: {1, 1}, parser.OpGetBuiltin: {1},
	parser.OpClosure: {2, 1}, parser.OpIteratorInit: {}, parser.OpIteratorNext: {}, parser.OpIteratorKey: {},
	parser.OpIteratorValue: {}, parser.OpBinaryOp: {1}, parser.OpSuspend: {},
}

// Decode splits an instruction stream; err != "" on unknown opcode/truncation.
func Decode(b []byte) (ins []Instr, at map[int]int, err string) {
	at = map[int]int{}
	for pc := 0; pc < len(b); {
		w, ok := widths[b[pc]]
		if !ok {
			return ins, at, fmt.Sprintf("unknown opcode %d at %d", b[pc], pc)
		}
		if pw := parser.OpcodeOperands[b[pc]]; fmt.Sprint(pw) != fmt.Sprint(w) {
			return ins, at, fmt.Sprintf("operand widths of opcode %d differ between compiler table %v and VM %v", b[pc], pw, w)
		}
		in := Instr{PC: pc, Op: b[pc], Size: 1}
		off := pc + 1
		for _, width := range w {
			if off+width > len(b) {
				return ins, at, fmt.Sprintf("truncated operand at %d", pc)
			}
			v := 0
			for k := 0; k < width; k++ {
				v = v<<8 | int(b[off+k])
			}
			in.Args = append(in.Args, v)
			off += width
		}
		in.Size = off - pc
		at[pc] = len(ins)
		ins = append(ins, in)
		pc = off
	}
	return ins, at, ""
}

// Finding is a structural defect of a function.
type Finding struct {
	Kind string // short class used in signatures
	Msg  string
}

// Env is what operands are resolved against.
type Env struct {
	Constants  []tengo.Object
	NumGlobals int
	NumBuiltin int
	IsMain     bool
	NumFree    int // free-variable slots available to this function (from its creation sites), -1 unknown
}

// Result of checking one function.
type Result struct {
	Findings    []Finding
	Heights     map[int]int // pc -> operand-stack height before the instruction (reachable pcs only)
	States      int
	Transitions int
	MaxHeight   int
}

type edge struct{ pc, h int }

// Check explores the transition system of fn over (pc,height).
func Check(fn *tengo.CompiledFunction, env Env) Result {
	res := Result{Heights: map[int]int{}}
	add := func(kind, f string, a ...interface{}) {
		if len(res.Findings) < 20 {
			res.Findings = append(res.Findings, Finding{kind, fmt.Sprintf(f, a...)})
		}
	}
	ins, at, derr := Decode(fn.Instructions)
	if derr != "" {
		add("decode", "%s", derr)
		return res
	}
	if len(ins) == 0 {
		add("empty", "function has no instructions")
		return res
	}
	if fn.NumParameters > fn.NumLocals && !env.IsMain {
		add("params-exceed-locals", "NumParameters %d > NumLocals %d", fn.NumParameters, fn.NumLocals)
	}
	if fn.NumLocals > 256 {
		add("too-many-locals", "NumLocals %d exceeds the one-byte local operand", fn.NumLocals)
	}
	work := []edge{{0, 0}}
	push := func(from Instr, pc, h int) {
		res.Transitions++
		if pc >= len(fn.Instructions) {
			add("fall-off", "control reaches offset %d past the end (from %d)", pc, from.PC)
			return
		}
		if _, ok := at[pc]; !ok {
			add("jump-into-operand", "offset %d (from %d) is not an instruction boundary", pc, from.PC)
			return
		}
		if old, seen := res.Heights[pc]; seen {
			if old != h {
				add("height-mismatch", "pc %d reached with heights %d and %d (from %d)", pc, old, h, from.PC)
			}
			return
		}
		res.Heights[pc] = h
		work = append(work, edge{pc, h})
	}
	res.Heights[0] = 0
	for len(work) > 0 {
		e := work[len(work)-1]
		work = work[:len(work)-1]
		res.States++
		in := ins[at[e.pc]]
		h := e.h
		if h > res.MaxHeight {
			res.MaxHeight = h
		}
		next := e.pc + in.Size
		need := func(n int) bool {
			if h < n {
				add("stack-underflow", "pc %d %s needs %d operands, height %d", e.pc, parser.OpcodeNames[in.Op], n, h)
				return false
			}
			return true
		}
		local := func(idx int) {
			if env.IsMain {
				add("local-in-main", "pc %d %s in main function", e.pc, parser.OpcodeNames[in.Op])
			} else if idx >= fn.NumLocals {
				add("local-out-of-range", "pc %d local %d >= NumLocals %d", e.pc, idx, fn.NumLocals)
			}
		}
		free := func(idx int) {
			if env.NumFree >= 0 && idx >= env.NumFree {
				add("free-out-of-range", "pc %d free %d >= %d captured", e.pc, idx, env.NumFree)
			}
		}
		global := func(idx int) {
			if idx >= env.NumGlobals {
				add("global-out-of-range", "pc %d global %d >= %d", e.pc, idx, env.NumGlobals)
			}
		}
		target := func() int { return in.Args[0] }
		switch in.Op {
		case parser.OpConstant:
			if in.Args[0] >= len(env.Constants) {
				add("const-out-of-range", "pc %d constant %d >= %d", e.pc, in.Args[0], len(env.Constants))
			}
			push(in, next, h+1)
		case parser.OpNull, parser.OpTrue, parser.OpFalse:
			push(in, next, h+1)
		case parser.OpGetGlobal:
			global(in.Args[0])
			push(in, next, h+1)
		case parser.OpGetLocal, parser.OpGetLocalPtr:
			local(in.Args[0])
			push(in, next, h+1)
		case parser.OpGetFree, parser.OpGetFreePtr:
			free(in.Args[0])
			push(in, next, h+1)
		case parser.OpGetBuiltin:
			if in.Args[0] >= env.NumBuiltin {
				add("builtin-out-of-range", "pc %d builtin %d >= %d", e.pc, in.Args[0], env.NumBuiltin)
			}
			push(in, next, h+1)
		case parser.OpBinaryOp, parser.OpEqual, parser.OpNotEqual, parser.OpIndex:
			if need(2) {
				push(in, next, h-1)
			}
		case parser.OpSliceIndex:
			if need(3) {
				push(in, next, h-2)
			}
		case parser.OpPop:
			if need(1) {
				push(in, next, h-1)
			}
		case parser.OpLNot, parser.OpBComplement, parser.OpMinus, parser.OpError, parser.OpImmutable,
			parser.OpIteratorInit, parser.OpIteratorNext, parser.OpIteratorKey, parser.OpIteratorValue:
			if need(1) {
				push(in, next, h)
			}
		case parser.OpJumpFalsy:
			if need(1) {
				push(in, next, h-1)
				push(in, target(), h-1)
			}
		case parser.OpAndJump, parser.OpOrJump:
			if need(1) {
				push(in, next, h-1)
				push(in, target(), h)
			}
		case parser.OpJump:
			push(in, target(), h)
		case parser.OpSetGlobal:
			global(in.Args[0])
			if need(1) {
				push(in, next, h-1)
			}
		case parser.OpSetLocal, parser.OpDefineLocal:
			local(in.Args[0])
			if need(1) {
				push(in, next, h-1)
			}
		case parser.OpSetFree:
			free(in.Args[0])
			if need(1) {
				push(in, next, h-1)
			}
		case parser.OpSetSelGlobal:
			global(in.Args[0])
			if need(in.Args[1] + 1) {
				push(in, next, h-in.Args[1]-1)
			}
		case parser.OpSetSelLocal:
			local(in.Args[0])
			if need(in.Args[1] + 1) {
				push(in, next, h-in.Args[1]-1)
			}
		case parser.OpSetSelFree:
			free(in.Args[0])
			if need(in.Args[1] + 1) {
				push(in, next, h-in.Args[1]-1)
			}
		case parser.OpArray:
			if need(in.Args[0]) {
				push(in, next, h-in.Args[0]+1)
			}
		case parser.OpMap:
			if in.Args[0]%2 != 0 {
				add("odd-map", "pc %d MAP with odd element count %d", e.pc, in.Args[0])
			}
			if need(in.Args[0]) {
				push(in, next, h-in.Args[0]+1)
			}
		case parser.OpClosure:
			if in.Args[0] >= len(env.Constants) {
				add("const-out-of-range", "pc %d closure constant %d >= %d", e.pc, in.Args[0], len(env.Constants))
			} else if _, ok := env.Constants[in.Args[0]].(*tengo.CompiledFunction); !ok {
				add("closure-not-function", "pc %d closure constant %d is %T", e.pc, in.Args[0], env.Constants[in.Args[0]])
			}
			if need(in.Args[1]) {
				push(in, next, h-in.Args[1]+1)
			}
		case parser.OpCall:
			if in.Args[1] > 1 {
				add("bad-spread-flag", "pc %d spread operand %d", e.pc, in.Args[1])
			}
			if in.Args[1] == 1 && in.Args[0] == 0 {
				add("spread-without-arg", "pc %d spread call with zero arguments", e.pc)
			}
			if need(in.Args[0] + 1) {
				// a self call followed by RET or POP;RET is executed as a tail call: the frame is reused
				// from pc 0 with an empty operand stack, which is only sound if nothing else is on it
				if n := at[e.pc] + 1; n < len(ins) && !env.IsMain {
					tail := ins[n].Op == parser.OpReturn ||
						(ins[n].Op == parser.OpPop && n+1 < len(ins) && ins[n+1].Op == parser.OpReturn)
					if tail && h != in.Args[0]+1 {
						add("tailcall-with-residue", "pc %d tail-call shaped CALL with %d extra operands below", e.pc, h-in.Args[0]-1)
					}
				}
				push(in, next, h-in.Args[0])
			}
		case parser.OpReturn:
			if env.IsMain {
				add("return-in-main", "pc %d RET in main function", e.pc)
			}
			if in.Args[0] > 1 {
				add("bad-return-operand", "pc %d RET %d", e.pc, in.Args[0])
			}
			if in.Args[0] == 1 {
				need(1)
			}
		case parser.OpSuspend:
			if !env.IsMain {
				add("suspend-in-function", "pc %d SUSPEND outside main", e.pc)
			}
			if h != 0 {
				add("suspend-nonempty-stack", "pc %d SUSPEND with height %d", e.pc, h)
			}
		default:
			add("decode", "unhandled opcode %d", in.Op)
		}
	}
	return res
}

// FreeSlots computes, for every function constant, the number of free
// variables its creation sites provide (CLOSURE n => n; CONST => 0). A
// function created at several sites with different counts gets -2.
func FreeSlots(bc *tengo.Bytecode) map[int]int {
	slots := map[int]int{}
	note := func(idx, n int) {
		if old, ok := slots[idx]; ok && old != n {
			slots[idx] = -2
			return
		}
		slots[idx] = n
	}
	scan := func(fn *tengo.CompiledFunction) {
		ins, _, err := Decode(fn.Instructions)
		if err != "" {
			return
		}
		for _, in := range ins {
			switch in.Op {
			case parser.OpClosure:
				note(in.Args[0], in.Args[1])
			case parser.OpConstant:
				if in.Args[0] < len(bc.Constants) {
					if _, ok := bc.Constants[in.Args[0]].(*tengo.CompiledFunction); ok {
						note(in.Args[0], 0)
					}
				}
			}
		}
	}
	scan(bc.MainFunction)
	for _, c := range bc.Constants {
		if f, ok := c.(*tengo.CompiledFunction); ok {
			scan(f)
		}
	}
	return slots
}

// CheckBytecode checks main and every function constant. It returns findings
// tagged with the function ("main" or "const#i"), plus totals.
type FnResult struct {
	Name string
	Fn   *tengo.CompiledFunction
	Res  Result
}

func CheckBytecode(bc *tengo.Bytecode, numGlobals, numBuiltin int) []FnResult {
	var out []FnResult
	slots := FreeSlots(bc)
	out = append(out, FnResult{"main", bc.MainFunction, Check(bc.MainFunction,
		Env{Constants: bc.Constants, NumGlobals: numGlobals, NumBuiltin: numBuiltin, IsMain: true, NumFree: 0})})
	for i, c := range bc.Constants {
		if f, ok := c.(*tengo.CompiledFunction); ok {
			nf, seen := slots[i]
			if !seen {
				nf = -1 // never instantiated (e.g. removed creation site): indices cannot be judged
			}
			r := Check(f, Env{Constants: bc.Constants, NumGlobals: numGlobals, NumBuiltin: numBuiltin, NumFree: nf})
			if nf == -2 {
				r.Findings = append(r.Findings, Finding{"inconsistent-closure-arity", "function constant created with different free-variable counts"})
			}
			out = append(out, FnResult{fmt.Sprintf("const#%d", i), f, r})
		}
	}
	return out
}

// ---- lock-step bisimulation (C03) -----------------------------------------

func isJump(op parser.Opcode) bool {
	return op == parser.OpJump || op == parser.OpJumpFalsy || op == parser.OpAndJump || op == parser.OpOrJump
}

// BisimResult reports the exploration of pairs (pc_u, pc_o).
type BisimResult struct {
	Findings      []Finding
	Pairs         int
	Transitions   int
	ReachableU    int // reachable unoptimised instructions
	RemovedU      int // unoptimised instructions without partner (all must be unreachable)
	RemovedReach  int
}

// Bisim relates the unoptimised stream u with the optimised stream o.
func Bisim(u, o *tengo.CompiledFunction) BisimResult {
	var res BisimResult
	add := func(kind, f string, a ...interface{}) {
		if len(res.Findings) < 20 {
			res.Findings = append(res.Findings, Finding{kind, fmt.Sprintf(f, a...)})
		}
	}
	iu, atu, e1 := Decode(u.Instructions)
	io, ato, e2 := Decode(o.Instructions)
	if e1 != "" || e2 != "" {
		add("decode", "unopt: %s opt: %s", e1, e2)
		return res
	}
	if u.NumLocals != o.NumLocals || u.NumParameters != o.NumParameters || u.VarArgs != o.VarArgs {
		add("header-differs", "locals/params/varargs differ: %d/%d/%v vs %d/%d/%v", u.NumLocals, u.NumParameters, u.VarArgs, o.NumLocals, o.NumParameters, o.VarArgs)
	}
	partner := map[int]int{}
	type pair struct{ u, o int }
	work := []pair{{0, 0}}
	visit := func(pu, po int, from string) {
		res.Transitions++
		_, oku := atu[pu]
		_, oko := ato[po]
		if !oku || !oko {
			add("bad-target", "pair (%d,%d) from %s is not on instruction boundaries (unopt ok=%v, opt ok=%v)", pu, po, from, oku, oko)
			return
		}
		if old, ok := partner[pu]; ok {
			if old != po {
				add("not-functional", "unoptimised pc %d related to optimised %d and %d", pu, old, po)
			}
			return
		}
		partner[pu] = po
		work = append(work, pair{pu, po})
	}
	partner[0] = 0
	for len(work) > 0 {
		p := work[len(work)-1]
		work = work[:len(work)-1]
		res.Pairs++
		a, b := iu[atu[p.u]], io[ato[p.o]]
		if a.Op != b.Op {
			add("opcode-differs", "pair (%d,%d): %s vs %s", p.u, p.o, parser.OpcodeNames[a.Op], parser.OpcodeNames[b.Op])
			continue
		}
		// reported error position if this instruction fails: SourcePos(pc + operandBytes - 1); also SourcePos(pc)
		for _, d := range []int{0, a.Size - 2} {
			if pa, pb := u.SourcePos(p.u+d), o.SourcePos(p.o+d); pa != pb {
				add("sourcepos-differs", "pair (%d,%d)+%d %s: source pos %d vs %d", p.u, p.o, d, parser.OpcodeNames[a.Op], pa, pb)
			}
		}
		if isJump(a.Op) {
			visit(a.Args[0], b.Args[0], fmt.Sprintf("jump at (%d,%d)", p.u, p.o))
			if a.Op != parser.OpJump {
				visit(p.u+a.Size, p.o+b.Size, "fallthrough")
			}
			continue
		}
		if fmt.Sprint(a.Args) != fmt.Sprint(b.Args) {
			add("operand-differs", "pair (%d,%d) %s: %v vs %v", p.u, p.o, parser.OpcodeNames[a.Op], a.Args, b.Args)
		}
		if a.Op == parser.OpReturn || a.Op == parser.OpSuspend {
			continue
		}
		if p.u+a.Size >= len(u.Instructions) || p.o+b.Size >= len(o.Instructions) {
			if !(p.u+a.Size >= len(u.Instructions) && p.o+b.Size >= len(o.Instructions)) {
				add("fall-off-one-side", "pair (%d,%d): one stream ends", p.u, p.o)
			} else {
				add("fall-off", "pair (%d,%d): both streams end without return", p.u, p.o)
			}
			continue
		}
		visit(p.u+a.Size, p.o+b.Size, "next")
	}
	res.ReachableU = len(partner)
	// every optimised instruction must be the partner of some reachable unoptimised one, except a
	// trailing appended return; report as information (unreachable code left in place is not a violation)
	res.RemovedU = len(iu) - len(partner)
	_ = sort.Ints
	return res
}
